//! `sched` engine: controlled scheduler over real OS threads (a baton handed over at scheduling points = calls into the
//! harness scalar type) and preemption-bounded DFS over schedules (C17, schedule quantifier).
use crate::common::*;
use crate::obs::*;
use crate::sampler::*;
use crate::scalar::*;
use serde_json::{json, Value};
use std::sync::atomic::{AtomicU64, Ordering};
use std::sync::{Arc, Condvar, Mutex};
use std::time::Duration;

#[derive(Clone, Copy, PartialEq, Debug)]
pub enum Kind {
    Start,
    Op,
    Finish,
}

#[derive(Default)]
struct St {
    current: usize,
    finished: Vec<bool>,
    prefix: Vec<usize>,
    choices: Vec<usize>,
    enabled: Vec<usize>,
    kinds: Vec<Kind>,
    free_run: bool,
    abandoned: bool,
    diverged: bool,
    max_points: usize,
}

pub struct Sched {
    m: Mutex<St>,
    cv: Condvar,
}

#[derive(Clone, Debug)]
pub struct Trace {
    pub choices: Vec<usize>,
    pub enabled: Vec<usize>,
    pub kinds: Vec<Kind>,
    pub abandoned: bool,
    pub diverged: bool,
}

impl Sched {
    pub fn new(nthreads: usize, prefix: Vec<usize>) -> Arc<Sched> {
        let mut st = St {
            finished: vec![false; nthreads],
            prefix,
            max_points: 2_000_000,
            ..Default::default()
        };
        // start point: which thread runs first (no preemption cost)
        let c = st.prefix.first().copied().unwrap_or(0);
        if c >= nthreads {
            st.diverged = true;
            st.free_run = true;
        }
        st.choices.push(c.min(nthreads - 1));
        st.enabled.push(nthreads);
        st.kinds.push(Kind::Start);
        st.current = c.min(nthreads - 1);
        Arc::new(Sched { m: Mutex::new(st), cv: Condvar::new() })
    }

    fn wait_for_turn<'a>(&'a self, mut g: std::sync::MutexGuard<'a, St>, tid: usize) -> std::sync::MutexGuard<'a, St> {
        while g.current != tid && !g.free_run {
            let (ng, to) = self.cv.wait_timeout(g, Duration::from_millis(3000)).unwrap();
            g = ng;
            if to.timed_out() && g.current != tid && !g.free_run {
                // the running thread made no visible progress: a blocking primitive the baton cannot see
                g.free_run = true;
                g.abandoned = true;
                self.cv.notify_all();
            }
        }
        g
    }

    pub fn begin(&self, tid: usize) {
        let g = self.m.lock().unwrap();
        let _g = self.wait_for_turn(g, tid);
    }

    pub fn point(&self, tid: usize) {
        let mut g = self.m.lock().unwrap();
        if g.free_run {
            return;
        }
        if g.current != tid {
            // cannot happen under the baton discipline
            g.diverged = true;
            g.free_run = true;
            self.cv.notify_all();
            return;
        }
        let others: Vec<usize> = (0..g.finished.len()).filter(|&t| t != tid && !g.finished[t]).collect();
        let idx = g.choices.len();
        if idx >= g.max_points {
            g.free_run = true;
            g.abandoned = true;
            self.cv.notify_all();
            return;
        }
        let n = 1 + others.len();
        let c = if idx < g.prefix.len() { g.prefix[idx] } else { 0 };
        if c >= n {
            g.diverged = true;
            g.free_run = true;
            self.cv.notify_all();
            return;
        }
        g.choices.push(c);
        g.enabled.push(n);
        g.kinds.push(Kind::Op);
        if c > 0 {
            g.current = others[c - 1];
            self.cv.notify_all();
            let _g = self.wait_for_turn(g, tid);
        }
    }

    pub fn finish(&self, tid: usize) {
        let mut g = self.m.lock().unwrap();
        g.finished[tid] = true;
        if g.free_run {
            self.cv.notify_all();
            return;
        }
        let rest: Vec<usize> = (0..g.finished.len()).filter(|&t| !g.finished[t]).collect();
        if rest.is_empty() {
            self.cv.notify_all();
            return;
        }
        let idx = g.choices.len();
        let c = if idx < g.prefix.len() { g.prefix[idx] } else { 0 };
        if c >= rest.len() {
            g.diverged = true;
            g.free_run = true;
            self.cv.notify_all();
            return;
        }
        g.choices.push(c);
        g.enabled.push(rest.len());
        g.kinds.push(Kind::Finish);
        g.current = rest[c];
        self.cv.notify_all();
    }

    pub fn trace(&self) -> Trace {
        let g = self.m.lock().unwrap();
        Trace {
            choices: g.choices.clone(),
            enabled: g.enabled.clone(),
            kinds: g.kinds.clone(),
            abandoned: g.abandoned,
            diverged: g.diverged,
        }
    }
}

/// shared scratch cell of the canary (a deliberately impure scalar operation living in the harness)
pub static CANARY_SCRATCH: AtomicU64 = AtomicU64::new(0);

pub type Body<'a> = Box<dyn Fn() -> Vec<u64> + Send + Sync + 'a>;

/// run all bodies under the schedule `prefix` (then default choices); returns each thread's observation and the trace
pub fn run_schedule(bodies: &[Body], prefix: &[usize]) -> (Vec<Vec<u64>>, Trace) {
    let n = bodies.len();
    let sched = Sched::new(n, prefix.to_vec());
    let mut results: Vec<Vec<u64>> = vec![vec![]; n];
    std::thread::scope(|s| {
        let mut handles = vec![];
        for (tid, body) in bodies.iter().enumerate() {
            let sc = sched.clone();
            handles.push(s.spawn(move || {
                let sc2 = sc.clone();
                POINT_HOOK.with(|h| *h.borrow_mut() = Some(Box::new(move || sc2.point(tid))));
                sc.begin(tid);
                let r = std::panic::catch_unwind(std::panic::AssertUnwindSafe(|| body()));
                POINT_HOOK.with(|h| *h.borrow_mut() = None);
                sc.finish(tid);
                match r {
                    Ok(v) => v,
                    Err(e) => {
                        let m = panic_message(e);
                        vec![u64::MAX, fnv(&m)]
                    }
                }
            }));
        }
        for (tid, h) in handles.into_iter().enumerate() {
            results[tid] = h.join().unwrap_or_else(|_| vec![u64::MAX]);
        }
    });
    (results, sched.trace())
}

pub struct ExploreStats {
    pub schedules: u64,
    pub points_max: usize,
    pub abandoned: u64,
    pub diverged: u64,
    pub mismatches: Vec<(Vec<usize>, usize)>,
    pub distinct_outcomes: std::collections::BTreeSet<u64>,
}

/// preemption-bounded DFS (iterative, explicit stack), exactly the brief's explorer: replay prefix, default afterwards,
/// alternatives at every later point whose cost stays within the bound.
pub fn explore_schedules(bodies: &[Body], expected: &[Vec<u64>], bound: usize, max_schedules: u64, part: usize, nparts: usize) -> ExploreStats {
    let mut stats = ExploreStats {
        schedules: 0,
        points_max: 0,
        abandoned: 0,
        diverged: 0,
        mismatches: vec![],
        distinct_outcomes: Default::default(),
    };
    // stack entries: (prefix, depth in the DFS tree, ordinal of the level-1 ancestor)
    let mut stack: Vec<(Vec<usize>, usize, usize)> = vec![(vec![], 0, 0)];
    while let Some((prefix, depth, ord1)) = stack.pop() {
        if stats.schedules >= max_schedules || time_up() {
            break;
        }
        // ownership: the root and level-1 schedules are executed by every worker (cheap) but judged by one;
        // level-2 subtrees are distributed by (ord1, ord2)
        let owned = match depth {
            0 => part == 0,
            1 => ord1 % nparts == part,
            _ => true,
        };
        let (res, tr) = run_schedule(bodies, &prefix);
        if tr.diverged {
            stats.diverged += 1;
            continue;
        }
        if owned {
            stats.schedules += 1;
            stats.points_max = stats.points_max.max(tr.choices.len());
            if tr.abandoned {
                stats.abandoned += 1;
                continue;
            }
            let mut h = 0u64;
            for (t, r) in res.iter().enumerate() {
                h ^= fnv(&format!("{t}:{r:?}"));
                if *r != expected[t] && stats.mismatches.len() < 20 {
                    stats.mismatches.push((tr.choices.clone(), t));
                }
            }
            stats.distinct_outcomes.insert(h);
        } else if tr.abandoned {
            continue;
        }
        let mut child_no = 0usize;
        let mut pre = 0usize; // preemptions before point i
        for i in 0..tr.choices.len() {
            if i >= prefix.len() {
                let cost_alt = pre + if tr.kinds[i] == Kind::Op { 1 } else { 0 };
                if cost_alt <= bound {
                    for alt in 1..tr.enabled[i] {
                        child_no += 1;
                        let keep = match depth {
                            0 => true,
                            1 => (ord1 * 7919 + child_no) % nparts == part,
                            _ => true,
                        };
                        if !keep {
                            continue;
                        }
                        let mut p = tr.choices[..i].to_vec();
                        p.push(alt);
                        stack.push((p, depth + 1, if depth == 0 { child_no } else { ord1 }));
                    }
                }
            }
            if tr.kinds[i] == Kind::Op && tr.choices[i] > 0 {
                pre += 1;
            }
        }
    }
    stats
}

fn tr_bits(o: &Outcome<Tr>) -> Vec<u64> {
    match o {
        Outcome::Ok(s) => {
            let mut v = vec![];
            for k in &s.loop_momenta {
                for c in k {
                    v.push(c.v.to_bits());
                }
            }
            for x in [&s.u, &s.v, &s.jacobian, &s.u_trop, &s.v_trop] {
                v.push(x.v.to_bits());
            }
            if let Some(m) = &s.meta {
                v.push(m.lambda.v.to_bits());
                for q in m.q_vectors.iter().flatten().chain(m.l_matrix.iter()).chain(m.shift.iter().flatten()) {
                    v.push(q.v.to_bits());
                }
            }
            v
        }
        Outcome::Err(e) => vec![u64::MAX - 1, fnv(e)],
        Outcome::Panic(p) => vec![u64::MAX, fnv(p)],
    }
}

fn tr_in(x: &[f64], ed: &EdgeData<f64>) -> (Vec<Tr>, EdgeData<Tr>) {
    (
        x.iter().map(|&v| Tr::new(v, 0)).collect(),
        ed.iter().map(|(m, p)| (m.map(|m| Tr::new(m, 0)), p.iter().map(|&c| Tr::new(c, 0)).collect())).collect(),
    )
}

pub struct Scenario {
    pub name: String,
    pub routed: Vec<Routed>,
    /// (sampler index, x point)
    pub calls: Vec<Vec<(usize, Vec<f64>)>>,
}

fn make_body<'a>(sc: &'a Scenario, thread: usize, canary: bool) -> Body<'a> {
    Box::new(move || {
        let mut out = vec![];
        for (si, x) in &sc.calls[thread] {
            let r = &sc.routed[*si];
            let (xs, ed) = tr_in(x, &r.ed);
            if canary {
                // an impure operation: shared scratch written, scheduling point, read back
                for v in &xs {
                    CANARY_SCRATCH.store(v.v.to_bits(), Ordering::SeqCst);
                    let _ = v + v; // scheduling point
                    out.push(CANARY_SCRATCH.load(Ordering::SeqCst));
                }
            }
            let o = r.sampler.sample_with(&xs, &ed, &Settings::META, &NullLogger);
            out.extend(tr_bits(&o));
        }
        out
    })
}

pub fn scenarios(tier: Tier) -> Vec<Scenario> {
    use crate::scope::*;
    let mut res = vec![];
    let mk_case = |topo: Vec<(u8, u8)>, massive: Vec<bool>, w: f64, ext: Vec<u8>, d: usize| -> (Case, Routed) {
        let ne = topo.len();
        let g = mk(&topo, &massive, &vec![w; ne], &ext, d);
        let case = Case::new(&CaseSpec { g, mom_variant: 0, mass_variant: 0, label: "sched".into() }).expect("scenario admissible");
        let r = route(&case, &case.base_kin()).expect("scenario builds");
        (case, r)
    };
    // massive bubble D=3 (E=2, L=1)
    let (ca, ra) = mk_case(banana(1), vec![true, true], 1.0, vec![0, 1], 3);
    // 2-loop kite with a mass, D=4
    let (cb, rb) = mk_case(kite(), vec![false, true, false, false, false], 1.5, vec![0, 3], 4);
    let xa1 = sector_defaults(&ca, &[0, 1]);
    let mut xa2 = sector_defaults(&ca, &[1, 0]);
    xa2[1] = 0.25;
    let n = xa2.len();
    xa2[n - 1] = 0.75;
    let xb1 = sector_defaults(&cb, &[0, 1, 2, 3, 4]);
    let mut xb2 = sector_defaults(&cb, &[4, 2, 0, 1, 3]);
    xb2[1] = 0.9;
    let (_ca2, ra2) = mk_case(banana(1), vec![true, true], 1.0, vec![0, 1], 3);
    let (_cb2, rb2) = mk_case(kite(), vec![false, true, false, false, false], 1.5, vec![0, 3], 4);
    res.push(Scenario {
        name: "bubble: two threads, same sampler, different points".into(),
        routed: vec![ra],
        calls: vec![vec![(0, xa1.clone())], vec![(0, xa2.clone())]],
    });
    res.push(Scenario {
        name: "kite(2 loops): two threads, same sampler, different points".into(),
        routed: vec![rb],
        calls: vec![vec![(0, xb1.clone())], vec![(0, xb2.clone())]],
    });
    res.push(Scenario {
        name: "bubble + kite: two threads, different samplers".into(),
        routed: vec![ra2, rb2],
        calls: vec![vec![(0, xa1.clone())], vec![(1, xb1.clone())]],
    });
    if tier == Tier::Thorough {
        let (_c, r3) = mk_case(banana(1), vec![true, true], 1.0, vec![0, 1], 3);
        res.push(Scenario {
            name: "bubble: three threads, same sampler".into(),
            routed: vec![r3],
            calls: vec![vec![(0, xa1.clone())], vec![(0, xa2.clone())], vec![(0, xa2.clone()), (0, xa1.clone())]],
        });
    }
    res
}

pub fn run_schedules(ctx: &Ctx, acc: &mut Acc) -> Result<(), String> {
    let tier = ctx.tier;
    let scs = scenarios(tier);
    // the schedule phase has its own wall-clock budget (the histories before it may have used up the process-wide one, and a
    // canary cut short by the clock would look like a blind explorer)
    set_time_cap(tier.pick(800.0, 1200.0));
    // ---- canary: the explorer must find the planted impurity with one preemption
    {
        let sc = &scs[0];
        let bodies: Vec<Body> = (0..sc.calls.len()).map(|t| make_body(sc, t, true)).collect();
        let expected: Vec<Vec<u64>> = bodies.iter().map(|b| b()).collect();
        let st = explore_schedules(&bodies, &expected, 1, 5000, 0, 1);
        acc.add("canary_schedules", st.schedules);
        if st.mismatches.is_empty() {
            return Err("canary not caught: the schedule explorer did not expose a planted shared-scratch impurity".into());
        }
        acc.inc("canary_caught");
    }
    for (si, sc) in scs.iter().enumerate() {
        let nthreads = sc.calls.len();
        let bodies: Vec<Body> = (0..nthreads).map(|t| make_body(sc, t, false)).collect();
        // sequential reference, twice (harness determinism)
        let expected: Vec<Vec<u64>> = bodies.iter().map(|b| b()).collect();
        let again: Vec<Vec<u64>> = bodies.iter().map(|b| b()).collect();
        if expected != again {
            return Err(format!("scenario {si}: sequential results are not reproducible"));
        }
        // determinism of the controlled execution: the default schedule twice
        let (r1, t1) = run_schedule(&bodies, &[]);
        let (r2, t2) = run_schedule(&bodies, &[]);
        if t1.choices != t2.choices || t1.enabled != t2.enabled || r1 != r2 {
            return Err(format!("scenario {si}: replaying the same schedule gave a different trace (uncontrolled nondeterminism)"));
        }
        let bound = match (tier, nthreads, si) {
            (Tier::Quick, _, 0) => 2,
            (Tier::Quick, _, _) => 1,
            (Tier::Thorough, 3, _) => 2,
            (Tier::Thorough, _, 0) => 3,
            (Tier::Thorough, _, _) => 2,
        };
        // the DFS is split over workers by the first non-default decision: here simply run scenario-level parallelism
        let cap = tier.pick(200_000u64, 3_000_000u64);
        let st = if bound >= 2 {
            // deeper bounds: partition the children of the root schedule over worker processes (process isolation keeps
            // every explorer deterministic even if the code under test had process-global state)
            match explore_in_processes(si, bound, tier) {
                Ok(s) => s,
                Err(e) => return Err(e),
            }
        } else {
            explore_schedules(&bodies, &expected, bound, cap, 0, 1)
        };
        acc.add("schedules", st.schedules);
        acc.add("schedules_abandoned", st.abandoned);
        acc.add("schedules_diverged", st.diverged);
        acc.max(&format!("scheduling_points[{}]", sc.name), st.points_max as f64);
        acc.add("distinct_outcomes_total", st.distinct_outcomes.len() as u64);
        acc.hist("preemption_bound_completed", &format!("{}:p={bound}", sc.name));
        if st.schedules >= cap {
            acc.inc("schedule_cap_hit");
        }
        let capped = CAPPED_WORKERS.swap(0, std::sync::atomic::Ordering::SeqCst);
        if capped > 0 || time_up() {
            acc.inc("schedule_cap_hit");
            acc.add("items_skipped_by_time_cap", capped.max(1) as u64);
        }
        if st.diverged > 0 {
            return Err(format!("scenario {si}: {} schedules diverged while replaying a prefix", st.diverged));
        }
        // last explored schedule replayed twice is covered by the per-schedule determinism above; mismatches are violations
        for (choices, t) in st.mismatches.iter().take(3) {
            acc.violate(
                format!("C17/schedule/{si}/{:016x}", fnv(&format!("{choices:?}"))),
                "bit-identical results regardless of concurrent sampling",
                format!("scenario '{}': thread {t} returned a result different from its sequential result under schedule with {} points", sc.name, choices.len()),
                json!({"engine": "sched", "scenario": si, "choices": choices, "tier": tier.name()}),
            );
        }
        if si == 0 {
            acc.sample(json!({"scenario": sc.name, "threads": nthreads, "scheduling_points": st.points_max, "schedules": st.schedules, "preemption_bound": bound}));
        }
    }
    Ok(())
}

pub fn replay(ctx: &Ctx, case: &Value) -> i32 {
    let tier = if case["tier"] == "thorough" { Tier::Thorough } else { ctx.tier };
    let scs = scenarios(tier);
    let si = case["scenario"].as_u64().unwrap() as usize;
    let choices: Vec<usize> = case["choices"].as_array().unwrap().iter().map(|v| v.as_u64().unwrap() as usize).collect();
    let sc = &scs[si];
    let bodies: Vec<Body> = (0..sc.calls.len()).map(|t| make_body(sc, t, false)).collect();
    let expected: Vec<Vec<u64>> = bodies.iter().map(|b| b()).collect();
    let (res, tr) = run_schedule(&bodies, &choices);
    eprintln!("replayed schedule of {} points (diverged={}, abandoned={})", tr.choices.len(), tr.diverged, tr.abandoned);
    let mut bad = 0;
    for t in 0..res.len() {
        if res[t] != expected[t] {
            eprintln!("  thread {t}: result differs from its sequential result");
            bad = 1;
        }
    }
    if bad == 0 {
        eprintln!("  no violation reproduced");
    }
    bad
}


/// worker entry: `mtmc C17 --sched-worker <scenario> <bound> <part> <nparts> <tier>` prints one JSON line
pub fn worker_main(args: &[String]) -> i32 {
    let si: usize = args[0].parse().unwrap();
    let bound: usize = args[1].parse().unwrap();
    let part: usize = args[2].parse().unwrap();
    let nparts: usize = args[3].parse().unwrap();
    let tier = if args[4] == "thorough" { Tier::Thorough } else { Tier::Quick };
    set_time_cap(tier.pick(800.0, 1200.0));
    let scs = scenarios(tier);
    let sc = &scs[si];
    let bodies: Vec<Body> = (0..sc.calls.len()).map(|t| make_body(sc, t, false)).collect();
    let expected: Vec<Vec<u64>> = bodies.iter().map(|b| b()).collect();
    let st = explore_schedules(&bodies, &expected, bound, 10_000_000, part, nparts);
    let v = json!({
        "schedules": st.schedules, "points_max": st.points_max, "abandoned": st.abandoned, "diverged": st.diverged,
        "mismatches": st.mismatches.iter().map(|(c, t)| json!({"choices": c, "thread": t})).collect::<Vec<_>>(),
        "distinct": st.distinct_outcomes.iter().collect::<Vec<_>>(),
        "time_up": time_up(),
    });
    out_line(&v.to_string());
    0
}

static CAPPED_WORKERS: std::sync::atomic::AtomicUsize = std::sync::atomic::AtomicUsize::new(0);

fn explore_in_processes(si: usize, bound: usize, tier: Tier) -> Result<ExploreStats, String> {
    let exe = std::env::current_exe().map_err(|e| e.to_string())?;
    let nparts = 16usize;
    let mut children = vec![];
    for part in 0..nparts {
        let c = std::process::Command::new(&exe)
            .args(["C17", "--sched-worker", &si.to_string(), &bound.to_string(), &part.to_string(), &nparts.to_string(), tier.name()])
            .stdout(std::process::Stdio::piped())
            .stderr(std::process::Stdio::null())
            .spawn()
            .map_err(|e| e.to_string())?;
        children.push(c);
    }
    let mut total = ExploreStats { schedules: 0, points_max: 0, abandoned: 0, diverged: 0, mismatches: vec![], distinct_outcomes: Default::default() };
    for c in children {
        let out = c.wait_with_output().map_err(|e| e.to_string())?;
        let txt = String::from_utf8_lossy(&out.stdout);
        let line = txt.lines().last().ok_or("schedule worker produced no output")?;
        let v: Value = serde_json::from_str(line).map_err(|e| format!("worker output: {e}"))?;
        total.schedules += v["schedules"].as_u64().unwrap_or(0);
        total.points_max = total.points_max.max(v["points_max"].as_u64().unwrap_or(0) as usize);
        total.abandoned += v["abandoned"].as_u64().unwrap_or(0);
        total.diverged += v["diverged"].as_u64().unwrap_or(0);
        if v["time_up"].as_bool().unwrap_or(false) {
            // a worker that ran out of time explored a prefix of its partition: coverage is incomplete, not a verdict
            total.abandoned += 1;
            CAPPED_WORKERS.fetch_add(1, std::sync::atomic::Ordering::SeqCst);
        }
        for m in v["mismatches"].as_array().cloned().unwrap_or_default() {
            total.mismatches.push((m["choices"].as_array().unwrap().iter().map(|x| x.as_u64().unwrap() as usize).collect(), m["thread"].as_u64().unwrap() as usize));
        }
        for d in v["distinct"].as_array().cloned().unwrap_or_default() {
            total.distinct_outcomes.insert(d.as_u64().unwrap_or(0));
        }
    }
    Ok(total)
}
