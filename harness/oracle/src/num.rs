//! Exact rationals and helpers.
use num_bigint::BigInt;
use num_rational::BigRational;
use num_traits::{One, Signed, ToPrimitive, Zero};

pub type Q = BigRational;

/// Exact rational value of a finite f64 (panics on NaN / inf: callers filter first).
pub fn qf(x: f64) -> Q {
    BigRational::from_float(x).unwrap_or_else(|| panic!("qf: non-finite {x}"))
}

pub fn qf_opt(x: f64) -> Option<Q> {
    BigRational::from_float(x)
}

pub fn qi(n: i64) -> Q {
    BigRational::from_integer(BigInt::from(n))
}

pub fn qr(n: i64, d: i64) -> Q {
    BigRational::new(BigInt::from(n), BigInt::from(d))
}

pub fn q_abs(x: &Q) -> Q {
    x.abs()
}

/// Nearest-ish f64 (num-rational's conversion is correctly scaled for huge operands);
/// saturates to 0 / ±inf outside the f64 range.
pub fn q_to_f64(x: &Q) -> f64 {
    if x.is_zero() {
        return 0.0;
    }
    match x.to_f64() {
        Some(v) if v.is_finite() && v != 0.0 => v,
        _ => {
            // outside range: decide by magnitude of log2
            let l = q_log2(x);
            let s = if x.is_negative() { -1.0 } else { 1.0 };
            if l > 0.0 {
                s * f64::INFINITY
            } else {
                s * 0.0
            }
        }
    }
}

/// log2 |x| as f64 (approximate, fine for range tests); x != 0.
pub fn q_log2(x: &Q) -> f64 {
    let n = x.numer().abs();
    let d = x.denom().abs();
    big_log2(&n) - big_log2(&d)
}

fn big_log2(n: &BigInt) -> f64 {
    let bits = n.bits();
    if bits == 0 {
        return f64::NEG_INFINITY;
    }
    if bits <= 1000 {
        return n.to_f64().unwrap().log2();
    }
    let shift = bits - 64;
    let top: BigInt = n >> shift;
    top.to_f64().unwrap().log2() + shift as f64
}

/// natural log of |x|
pub fn q_ln(x: &Q) -> f64 {
    q_log2(x) * std::f64::consts::LN_2
}

pub fn q_max(a: &Q, b: &Q) -> Q {
    if a >= b {
        a.clone()
    } else {
        b.clone()
    }
}

pub fn q_min(a: &Q, b: &Q) -> Q {
    if a <= b {
        a.clone()
    } else {
        b.clone()
    }
}

pub fn q_zero() -> Q {
    Q::zero()
}
pub fn q_one() -> Q {
    Q::one()
}

/// |f - r| <= tau * |r|  (all exact; tau given as f64, converted exactly). For r == 0 demands |f| <= tau*abs_scale.
pub fn close_rel(f: &Q, r: &Q, tau: f64, abs_scale: &Q) -> bool {
    let t = qf(tau);
    let diff = (f - r).abs();
    if r.is_zero() {
        diff <= t * abs_scale.abs()
    } else {
        diff <= t * r.abs()
    }
}

/// relative error |f-r|/|r| as f64 (inf when r == 0 and f != 0)
pub fn rel_err(f: &Q, r: &Q) -> f64 {
    if r.is_zero() {
        if f.is_zero() {
            0.0
        } else {
            f64::INFINITY
        }
    } else {
        let e = ((f - r) / r).abs();
        if e.is_zero() {
            0.0
        } else {
            let v = q_to_f64(&e);
            if v == 0.0 {
                f64::MIN_POSITIVE
            } else {
                v
            }
        }
    }
}

#[cfg(test)]
mod tests {
    use super::*;
    #[test]
    fn exact_float() {
        assert_eq!(qf(0.5), qr(1, 2));
        assert_eq!(qf(-3.0), qi(-3));
        let x = qf(0.1);
        assert!(x != qr(1, 10));
        assert_eq!(q_to_f64(&x), 0.1);
        assert!((q_log2(&qf(1e-300)) - (1e-300f64).log2()).abs() < 1e-9);
        let tiny = qf(5e-324) * qf(5e-324);
        assert_eq!(q_to_f64(&tiny), 0.0);
        assert!(q_log2(&tiny) < -2000.0);
    }
}
