//! Symanzik polynomials from their combinatorial definitions, plus the matrix route used for adjudication.
use crate::graph::OGraph;
use crate::kin::*;
use crate::linalg::QMat;
use crate::num::*;
use num_traits::{One, Zero};
use std::collections::BTreeMap;

/// pre-computed combinatorics of one connected graph
#[derive(Clone, Debug)]
pub struct Comb {
    pub ne: usize,
    /// complement masks of the spanning trees (edges OUTSIDE the tree)
    pub tree_co: Vec<usize>,
    /// 2-forests: (complement mask, vertices of one side)
    pub forest_co: Vec<(usize, Vec<u8>)>,
}

impl Comb {
    pub fn new(g: &OGraph) -> Self {
        let full = g.full();
        Comb {
            ne: g.ne(),
            tree_co: g.spanning_trees().into_iter().map(|t| full & !t).collect(),
            forest_co: g
                .spanning_two_forests()
                .into_iter()
                .map(|(f, side)| (full & !f, side))
                .collect(),
        }
    }
    pub fn n_trees(&self) -> usize {
        self.tree_co.len()
    }
}

fn monomial(mask: usize, x: &[Q]) -> Q {
    let mut p = Q::one();
    for (e, xe) in x.iter().enumerate() {
        if mask >> e & 1 == 1 {
            p *= xe;
        }
    }
    p
}

/// U(x) = Σ_T Π_{e∉T} x_e
pub fn u_poly(c: &Comb, x: &[Q]) -> Q {
    c.tree_co.iter().fold(Q::zero(), |s, &m| s + monomial(m, x))
}

/// max_T Π_{e∉T} x_e
pub fn u_trop(c: &Comb, x: &[Q]) -> Q {
    c.tree_co
        .iter()
        .map(|&m| monomial(m, x))
        .fold(Q::zero(), |a, b| q_max(&a, &b))
}

/// F as a polynomial: exponent vector -> coefficient (coefficients of equal monomials summed)
#[derive(Clone, Debug)]
pub struct FPoly {
    pub terms: BTreeMap<Vec<u8>, Q>,
}

pub fn f_poly(c: &Comb, ext: &[(u8, Vec<Q>)], masses: &[Option<Q>]) -> FPoly {
    let ne = c.ne;
    let mut terms: BTreeMap<Vec<u8>, Q> = BTreeMap::new();
    for (co, side) in &c.forest_co {
        let dim = ext.first().map(|e| e.1.len()).unwrap_or(0);
        let mut s = vec![Q::zero(); dim];
        for (v, p) in ext {
            if side.contains(v) {
                s = vec_add(&s, p);
            }
        }
        let coef = vec_sq(&s);
        if coef.is_zero() {
            continue;
        }
        let exp: Vec<u8> = (0..ne).map(|e| (co >> e & 1) as u8).collect();
        *terms.entry(exp).or_insert_with(Q::zero) += coef;
    }
    for &co in &c.tree_co {
        for e in 0..ne {
            if let Some(m) = &masses[e] {
                let coef = m * m;
                if coef.is_zero() {
                    continue;
                }
                let mut exp: Vec<u8> = (0..ne).map(|k| (co >> k & 1) as u8).collect();
                exp[e] += 1;
                *terms.entry(exp).or_insert_with(Q::zero) += coef;
            }
        }
    }
    FPoly { terms }
}

impl FPoly {
    pub fn eval(&self, x: &[Q]) -> Q {
        let mut s = Q::zero();
        for (exp, coef) in &self.terms {
            let mut m = coef.clone();
            for (e, &k) in exp.iter().enumerate() {
                for _ in 0..k {
                    m *= &x[e];
                }
            }
            s += m;
        }
        s
    }
    /// largest monomial (coefficient stripped) among those with non-zero coefficient
    pub fn trop(&self, x: &[Q]) -> Q {
        let mut best = Q::zero();
        for (exp, coef) in &self.terms {
            if coef.is_zero() {
                continue;
            }
            let mut m = Q::one();
            for (e, &k) in exp.iter().enumerate() {
                for _ in 0..k {
                    m *= &x[e];
                }
            }
            if m > best {
                best = m;
            }
        }
        best
    }
    pub fn c_min(&self) -> Option<Q> {
        self.terms
            .values()
            .filter(|c| !c.is_zero())
            .cloned()
            .reduce(|a, b| q_min(&a, &b))
    }
    pub fn c_sum(&self) -> Q {
        self.terms.values().fold(Q::zero(), |a, b| a + b)
    }
    pub fn distinct_coeffs(&self) -> usize {
        let mut v: Vec<&Q> = self.terms.values().filter(|c| !c.is_zero()).collect();
        v.sort();
        v.dedup();
        v.len()
    }
    pub fn is_zero(&self) -> bool {
        self.terms.values().all(|c| c.is_zero())
    }
}

/// L_ij = Σ_e x_e S_ei S_ej
pub fn l_matrix(sig: &[Vec<i64>], x: &[Q]) -> QMat {
    let nl = sig.first().map(|r| r.len()).unwrap_or(0);
    let mut m = QMat::zeros(nl);
    for i in 0..nl {
        for j in 0..nl {
            let mut s = Q::zero();
            for (e, xe) in x.iter().enumerate() {
                let c = sig[e][i] * sig[e][j];
                if c != 0 {
                    s += xe * qi(c);
                }
            }
            m.a[i][j] = s;
        }
    }
    m
}

/// Σ_e |x_e S_ei S_ej| per entry (for entry-wise cancellation scaling)
pub fn l_matrix_abs(sig: &[Vec<i64>], x: &[Q]) -> QMat {
    let nl = sig.first().map(|r| r.len()).unwrap_or(0);
    let mut m = QMat::zeros(nl);
    for i in 0..nl {
        for j in 0..nl {
            let mut s = Q::zero();
            for (e, xe) in x.iter().enumerate() {
                let c = (sig[e][i] * sig[e][j]).abs();
                if c != 0 {
                    s += q_abs(xe) * qi(c);
                }
            }
            m.a[i][j] = s;
        }
    }
    m
}

/// u_l = Σ_e x_e S_el p_e   (L vectors of dimension D)
pub fn u_vectors(k: &Kin, x: &[Q]) -> Vec<Vec<Q>> {
    let nl = k.nl();
    let dim = k.shifts.first().map(|s| s.len()).unwrap_or(0);
    (0..nl)
        .map(|l| {
            let mut s = vec![Q::zero(); dim];
            for (e, xe) in x.iter().enumerate() {
                if k.sig[e][l] != 0 {
                    let f = xe * qi(k.sig[e][l]);
                    s = vec_add(&s, &vec_scale(&k.shifts[e], &f));
                }
            }
            s
        })
        .collect()
}

/// Σ_e x_e (m_e^2 + |p_e|^2)
pub fn v_first_term(k: &Kin, x: &[Q]) -> Q {
    let mut s = Q::zero();
    for (e, xe) in x.iter().enumerate() {
        let m2 = k.masses[e].as_ref().map(|m| m * m).unwrap_or_else(Q::zero);
        s += xe * (m2 + vec_sq(&k.shifts[e]));
    }
    s
}

/// the matrix route: V = Σ x_e(m_e²+p_e²) - uᵀ L⁻¹ u
pub fn v_matrix_route(k: &Kin, x: &[Q]) -> Option<Q> {
    let l = l_matrix(&k.sig, x);
    let inv = l.inverse()?;
    let u = u_vectors(k, x);
    let mut s = v_first_term(k, x);
    for i in 0..l.n {
        for j in 0..l.n {
            s -= &inv.a[i][j] * vec_dot(&u[i], &u[j]);
        }
    }
    Some(s)
}

/// L⁻¹ u  (L vectors)
pub fn shift_vectors(k: &Kin, x: &[Q]) -> Option<Vec<Vec<Q>>> {
    let l = l_matrix(&k.sig, x);
    let inv = l.inverse()?;
    let u = u_vectors(k, x);
    let dim = k.shifts.first().map(|s| s.len()).unwrap_or(0);
    Some(
        (0..l.n)
            .map(|i| {
                let mut s = vec![Q::zero(); dim];
                for j in 0..l.n {
                    s = vec_add(&s, &vec_scale(&u[j], &inv.a[i][j]));
                }
                s
            })
            .collect(),
    )
}

/// Σ_e x_e (|S k + p|_e² + m_e²) for given loop momenta
pub fn quadratic_form(k: &Kin, x: &[Q], loop_mom: &[Vec<Q>]) -> Q {
    let dim = k.shifts.first().map(|s| s.len()).unwrap_or(0);
    let mut s = Q::zero();
    for (e, xe) in x.iter().enumerate() {
        let mut q = k.shifts[e].clone();
        for (l, kl) in loop_mom.iter().enumerate() {
            if k.sig[e][l] != 0 {
                q = vec_add(&q, &vec_scale(kl, &qi(k.sig[e][l])));
            }
        }
        let _ = dim;
        let m2 = k.masses[e].as_ref().map(|m| m * m).unwrap_or_else(Q::zero);
        s += xe * (vec_sq(&q) + m2);
    }
    s
}

#[cfg(test)]
mod tests {
    use super::*;

    /// det L = U for any cycle basis; V·U = F for any routing: checked on a 2-loop graph over the orbit
    #[test]
    fn routes_agree() {
        let g = OGraph {
            edges: vec![(0, 1), (1, 2), (2, 0), (1, 3), (3, 2)],
            massive: vec![false, true, false, false, true],
            weights: vec![1.0; 5],
            externals: vec![0, 3, 1],
            dim: 3,
        };
        let c = Comb::new(&g);
        assert_eq!(c.n_trees(), 8);
        let ext = external_momenta(&[0, 3, 1], 3, 1);
        assert!(partial_sums_nonzero(&ext));
        let masses = vec![None, Some(qr(1, 2)), None, None, Some(qi(2))];
        let fp = f_poly(&c, &ext, &masses);
        let x: Vec<Q> = vec![qr(1, 3), qr(2, 7), qi(5), qr(1, 100), qr(9, 4)];
        let f = fp.eval(&x);
        let u = u_poly(&c, &x);
        for order in [vec![0, 1, 2, 3, 4], vec![4, 3, 2, 1, 0]] {
            let k0 = build_kin(&g, kruskal_tree(&g, &order), &ext, &masses);
            let mut variants = vec![k0.clone()];
            for m in elementary_unimodular(2) {
                variants.push(k0.change_basis(&m));
            }
            for e in 0..5 {
                variants.push(k0.flip(e));
            }
            variants.push(k0.offset(&[vec![qi(1), qi(0), qr(1, 2)], vec![qr(1, 2), qi(-3), qi(2)]]));
            for k in variants {
                assert!(k.conserves());
                let l = l_matrix(&k.sig, &x);
                assert_eq!(l.det(), u);
                let v = v_matrix_route(&k, &x).unwrap();
                assert_eq!(&v * &u, f);
            }
        }
        assert!(fp.trop(&x) <= f);
        assert!(u_trop(&c, &x) <= u);
    }
}
