//! The reference machine of DESIGN §2.1, written from the papers' definitions.
//!
//! SELECT(g) --u--> SCALE(g\e) --ξ--> SELECT … ; LAMBDA --p--> ; GAUSS --(a,b)-->
use crate::graph::*;
use crate::num::*;
use crate::symanzik::{Comb, FPoly};
use num_traits::{ToPrimitive, Zero};

#[derive(Clone, Debug)]
pub struct RefTable {
    pub g: OGraph,
    pub omega: Vec<Q>,
    pub j: Vec<Q>,
    pub nloops: usize,
    pub dod: Q,
}

impl RefTable {
    pub fn new(g: &OGraph) -> Option<Self> {
        let omega = g.omegas();
        // J is only defined when no proper non-empty subset has ω = 0
        for m in 1..g.full() {
            if omega[m].is_zero() {
                return None;
            }
        }
        let j = j_table(g.ne(), &omega);
        Some(RefTable {
            g: g.clone(),
            nloops: g.loop_number(g.full()),
            dod: g.dod(),
            omega,
            j,
        })
    }
    /// I_tr Γ(dod)/ΠΓ(ν) π^{DL/2}
    pub fn normalisation(&self) -> f64 {
        let dod = q_to_f64(&self.dod);
        let mut den = 1.0;
        for &w in &self.g.weights {
            den *= crate::special::gamma(w);
        }
        q_to_f64(&self.j[self.g.full()]) * crate::special::gamma(dod) / den
            * libm::pow(std::f64::consts::PI, (self.g.dim * self.nloops) as f64 / 2.0)
    }
}

#[derive(Clone, Debug)]
pub struct RefRun {
    /// removal order s_1..s_E
    pub order: Vec<usize>,
    /// g_0 = full, g_1, …, g_E = ∅
    pub graphs: Vec<usize>,
    /// smallest distance of a selection answer to an exact cumulative boundary, divided by |g|
    pub margin: f64,
    /// ln of the unrescaled Feynman parameter per edge
    pub ln_x: Vec<f64>,
    /// 1 + Σ_j |ln ξ_j| / ω_j  (amplification of pow rounding)
    pub kappa_cond: f64,
    /// the answers by role
    pub us: Vec<f64>,
    pub xis: Vec<f64>,
    pub p_lambda: f64,
    pub pairs: Vec<(f64, f64)>,
    /// expected Gaussian components, loop-major, D*L of them
    pub gauss: Vec<f64>,
    /// number of coordinates consumed
    pub consumed: usize,
}

/// Run the reference machine on an x-space point (length >= hypercube dim). None if a selection answer is outside [0,1).
pub fn run(t: &RefTable, point: &[f64]) -> Option<RefRun> {
    let ne = t.g.ne();
    let mut pos = 0usize;
    let mut g = t.g.full();
    let mut order = vec![];
    let mut graphs = vec![g];
    let mut margin = f64::INFINITY;
    let mut ln_x = vec![0.0; ne];
    let mut ln_kappa = 0.0f64;
    let mut kappa_cond = 1.0f64;
    let mut us = vec![];
    let mut xis = vec![];
    while g != 0 {
        let e = if g.count_ones() == 1 {
            g.trailing_zeros() as usize
        } else {
            let u = point[pos];
            pos += 1;
            us.push(u);
            if !(0.0..1.0).contains(&u) {
                return None;
            }
            let uq = qf(u);
            let cum = cumulative_probs(ne, g, &t.j, &t.omega);
            let mut chosen = None;
            for (e, c) in &cum {
                let d = q_to_f64(&(c - &uq)).abs() / g.count_ones() as f64;
                // the last boundary is exactly 1 and can never be crossed by u < 1
                if (*e != cum.last().unwrap().0) && d < margin {
                    margin = d;
                }
                if chosen.is_none() && *c >= uq {
                    chosen = Some(*e);
                }
            }
            // distance to 0 boundary does not matter (u >= 0 always selects the first edge with positive mass)
            chosen?
        };
        order.push(e);
        ln_x[e] = ln_kappa;
        g ^= 1 << e;
        graphs.push(g);
        if g == 0 {
            break;
        }
        let xi = point[pos];
        pos += 1;
        xis.push(xi);
        let w = q_to_f64(&t.omega[g]);
        ln_kappa += xi.ln() / w;
        kappa_cond += (xi.ln() / w).abs();
    }
    let p_lambda = point[pos];
    pos += 1;
    let dl = t.g.dim * t.nloops;
    let npairs = (dl + dl % 2) / 2;
    let mut pairs = vec![];
    let mut gauss = vec![];
    for _ in 0..npairs {
        let (a, b) = (point[pos], point[pos + 1]);
        pos += 2;
        pairs.push((a, b));
        let r = libm::sqrt(-2.0 * libm::log(a));
        let th = 2.0 * std::f64::consts::PI * b;
        gauss.push(r * libm::cos(th));
        gauss.push(r * libm::sin(th));
    }
    gauss.truncate(dl);
    Some(RefRun {
        order,
        graphs,
        margin,
        ln_x,
        kappa_cond,
        us,
        xis,
        p_lambda,
        pairs,
        gauss,
        consumed: pos,
    })
}

/// a u-answer that selects edge `e` at subgraph `g` with maximal margin (midpoint of its interval)
pub fn midpoint_u(t: &RefTable, g: usize, e: usize) -> f64 {
    let cum = cumulative_probs(t.g.ne(), g, &t.j, &t.omega);
    let mut prev = Q::zero();
    for (k, c) in cum {
        if k == e {
            return q_to_f64(&((prev + c) / qi(2)));
        }
        prev = c;
    }
    panic!("edge not in g");
}

/// interval (c_{k-1}, c_k] of edge e at g as exact rationals
pub fn interval(t: &RefTable, g: usize, e: usize) -> (Q, Q) {
    let cum = cumulative_probs(t.g.ne(), g, &t.j, &t.omega);
    let mut prev = Q::zero();
    for (k, c) in cum {
        if k == e {
            return (prev, c);
        }
        prev = c;
    }
    panic!("edge not in g");
}

/// tropical values in the log domain by brute force: (ln U_tr, ln F_tr) at ln x
pub fn ln_trop(c: &Comb, fp: &FPoly, ln_x: &[f64]) -> (f64, f64) {
    let mut lu = f64::NEG_INFINITY;
    for &co in &c.tree_co {
        let mut s = 0.0;
        for (e, l) in ln_x.iter().enumerate() {
            if co >> e & 1 == 1 {
                s += l;
            }
        }
        lu = lu.max(s);
    }
    let mut lf = f64::NEG_INFINITY;
    for (exp, coef) in &fp.terms {
        if coef.is_zero() {
            continue;
        }
        let mut s = 0.0;
        for (e, &k) in exp.iter().enumerate() {
            s += k as f64 * ln_x[e];
        }
        lf = lf.max(s);
    }
    (lu, lf)
}

pub fn q_ratio_to_f64(a: &Q, b: &Q) -> f64 {
    (a / b).to_f64().unwrap_or(f64::NAN)
}
