//! `kernel` engine: complete enumeration of deterministic lattices / small alphabets for the pure numeric kernels
//! (C12 gamma quantile, C15/C16 matrix routine, C20 vector + scalar primitives).
use crate::common::*;
use crate::scope::all_permutations;
use momtrop::float::MomTropFloat;
use momtrop::gamma::inverse_gamma_lr;
use momtrop::matrix::{DecompositionResult, MatrixError, SquareMatrix};
use momtrop::vector::Vector;
use momtrop::TropicalSamplingSettings;
use num_traits::{One, Signed, Zero};
use oracle::linalg::QMat;
use oracle::num::*;
use oracle::special::{gamma as ogamma, inc_gamma};
use serde_json::{json, Value};
use std::panic::{catch_unwind, AssertUnwindSafe};

// =====================================================================================================
// C12
// =====================================================================================================

fn next_up(x: f64) -> f64 {
    if x.is_nan() || x == f64::INFINITY {
        return x;
    }
    if x == 0.0 {
        return f64::from_bits(1);
    }
    let b = x.to_bits();
    f64::from_bits(if x > 0.0 { b + 1 } else { b - 1 })
}
fn next_down(x: f64) -> f64 {
    -next_up(-x)
}

pub fn gamma_a_grid(tier: Tier) -> Vec<f64> {
    let n = tier.pick(600, 4000);
    let mut v: Vec<f64> = (0..n)
        .map(|i| 0.05 * (100.0f64 / 0.05).powf(i as f64 / (n - 1) as f64))
        .collect();
    let specials = [
        0.05,
        0.3,
        1.0,
        1.0 - 1e-8,
        1.0 + 1e-8,
        0.999,
        1.001,
        2.0,
        0.5,
        1.5,
        3.0,
        10.0,
        99.0,
        100.0,
        0.0625,
        0.9166666666666667,
    ];
    for s in specials {
        for x in [next_down(s), s, next_up(s)] {
            if (0.05..=100.0).contains(&x) {
                v.push(x);
            }
        }
    }
    // both sides of the a≈1 shortcut window
    for x in [1.0 - 1.0e-8, 1.0 + 1.0e-8] {
        v.push(next_down(next_down(x)));
        v.push(next_up(next_up(x)));
    }
    v.retain(|a| (0.05..=100.0).contains(a));
    v.sort_by(|a, b| a.partial_cmp(b).unwrap());
    v.dedup();
    v
}

pub fn gamma_p_grid(tier: Tier, a: f64) -> Vec<f64> {
    let mut v: Vec<f64> = vec![0.0];
    let kstep = tier.pick(3, 1);
    let mut k = 1;
    while k <= 1074 {
        v.push(2f64.powi(-k));
        if k <= 53 {
            v.push(1.0 - 2f64.powi(-k));
        }
        k += if k < 64 { 1 } else { kstep * 8 };
    }
    let n = tier.pick(2000, 8000);
    for i in 1..n {
        v.push(i as f64 / n as f64);
    }
    let mut e = 1;
    while e <= 323 {
        v.push(10f64.powi(-e));
        e += if e < 20 { 1 } else { tier.pick(9, 1) };
    }
    for e in 1..=16 {
        v.push(1.0 - 10f64.powi(-e));
    }
    for x in [0.5, 0.007] {
        v.extend([next_down(x), x, next_up(x)]);
    }
    // p that put b = (1-p)Γ(a) on each branch threshold, ± 0,1,2 ulp
    let ga = ogamma(a);
    for thr in [0.6, 0.45, 0.35, 0.15, 0.01, 1e-28] {
        let q = thr / ga;
        if q > 0.0 && q < 1.0 {
            let p = 1.0 - q;
            let mut x = p;
            for _ in 0..3 {
                v.push(x);
                x = next_up(x);
            }
            let mut x = p;
            for _ in 0..2 {
                x = next_down(x);
                v.push(x);
            }
        }
    }
    // b*q > 1e-7 switch: q = sqrt(1e-7/Γ(a))
    let q = (10e-8 / ga).sqrt();
    if q < 1.0 {
        v.extend([1.0 - q, next_up(1.0 - q), next_down(1.0 - q)]);
    }
    // thresholds on the Cornish-Fisher estimate w: the `|1 - w/a| < 1e-6` early return (quantile = a) and the
    // `w < 3a` switch (quantile = 3a): p = P(a, a(1+δ)), P(a, 3a(1+δ))
    for (mult, deltas) in [(1.0, vec![0.0, 1e-7, -1e-7, 1e-6, -1e-6, 3e-6, -3e-6, 1e-5, -1e-5, 1e-4, -1e-4]), (3.0, vec![0.0, 1e-6, -1e-6, 1e-3, -1e-3])] {
        for d in deltas {
            let (pp, _) = inc_gamma(a, mult * a * (1.0 + d));
            v.extend([pp, next_up(pp), next_down(pp)]);
        }
    }
    v.retain(|p| (0.0..1.0).contains(p));
    v.sort_by(|a, b| a.partial_cmp(b).unwrap());
    v.dedup();
    v
}

/// harness-side recomputation of the start-value branch, for the coverage histogram only
fn gamma_branch(a: f64, p: f64) -> &'static str {
    let q = 1.0 - p;
    if (1.0 - 1.0e-8..=1.0 + 1.0e-8).contains(&a) {
        return "a~1:exp";
    }
    let b = q * ogamma(a);
    if a < 1.0 {
        if b > 0.6 || (b >= 0.45 && a >= 0.3) {
            if b * q > 10e-8 {
                "a<1:B1-pow"
            } else {
                "a<1:B1-exp"
            }
        } else if a < 0.3 && (0.35..=0.6).contains(&b) {
            "a<1:B2"
        } else if (0.15..=0.35).contains(&b) || ((0.15..0.45).contains(&b) && a >= 0.3) {
            "a<1:B3"
        } else if 0.01 < b && b < 0.15 {
            "a<1:B4"
        } else if b <= 0.01 {
            if b <= 1.0e-28 {
                "a<1:B5-early"
            } else {
                "a<1:B5"
            }
        } else {
            "a<1:none"
        }
    } else if p > 0.5 {
        "a>1:p>1/2"
    } else {
        "a>1:p<=1/2"
    }
}

#[derive(Clone, Copy, Debug)]
pub enum GammaObs {
    Ok(f64),
    Err,
    Panic,
}

pub fn call_gamma(a: f64, p: f64) -> (GammaObs, String) {
    let r = catch_unwind(AssertUnwindSafe(|| inverse_gamma_lr(&a, &p, 50, &5.0)));
    match r {
        Ok(Ok(l)) => (GammaObs::Ok(l), String::new()),
        Ok(Err(_)) => (GammaObs::Err, String::new()),
        Err(e) => (GammaObs::Panic, panic_message(e)),
    }
}

fn gamma_case(a: f64, p: f64) -> Value {
    json!({"engine": "kernel", "kind": "gamma", "a": jf(a), "p": jf(p)})
}

/// judge one (a,p); returns the accepted lambda for the monotonicity scan
pub fn check_gamma_point(a: f64, p: f64, acc: &mut Acc) -> Option<(f64, bool)> {
    acc.inc("evaluations");
    let (obs, msg) = call_gamma(a, p);
    let key = |site: &str| format!("C12/{site}/a={}/p={}", bits(a), bits(p));
    // is accuracy demanded here? true quantile >= 1e-13  <=>  P(a,1e-13) <= p
    let (p_floor, _) = inc_gamma(a, 1e-13);
    let in_domain = p_floor <= p && p > 0.0;
    match obs {
        GammaObs::Panic => {
            acc.violate(key("panic"), "never panics", format!("inverse_gamma_lr({a:e},{p:e}) panicked: {msg}"), gamma_case(a, p));
            None
        }
        GammaObs::Err => {
            acc.inc("returned_err");
            if in_domain {
                acc.violate(
                    key("err-in-domain"),
                    "returns a value when the true quantile >= 1e-13",
                    format!("inverse_gamma_lr({a:e},{p:e}) returned Err although the true quantile is >= 1e-13"),
                    gamma_case(a, p),
                );
            }
            None
        }
        GammaObs::Ok(l) => {
            if !(l.is_finite() && l > 0.0) {
                acc.violate(
                    key("nonpositive"),
                    "Err or finite lambda > 0",
                    format!("inverse_gamma_lr({a:e},{p:e}) = Ok({l:e}) (bits {})", bits(l)),
                    gamma_case(a, p),
                );
                return None;
            }
            if in_domain {
                acc.inc("accuracy_judged");
                let (pp, qq) = inc_gamma(a, l);
                let err = if p <= 0.5 { (pp - p).abs() } else { (qq - (1.0 - p)).abs() };
                acc.max("accuracy_err_units_2e-8", err / 2e-8);
                if !(err <= 2e-8) {
                    acc.violate(
                        key("inaccurate"),
                        "|P(a,lambda)-p| <= 2e-8",
                        format!("inverse_gamma_lr({a:e},{p:e}) = {l:e}: P(a,lambda) = {pp:e}, error {err:e}"),
                        gamma_case(a, p),
                    );
                    return None;
                }
                Some((l, true))
            } else {
                acc.inc("outside_accuracy_domain");
                Some((l, false))
            }
        }
    }
}

pub fn run_c12(ctx: &Ctx) -> i32 {
    let agrid = gamma_a_grid(ctx.tier);
    let tier = ctx.tier;
    let mut acc = par_for(agrid.len(), |i, acc| {
        let a = agrid[i];
        let ps = gamma_p_grid(tier, a);
        let mut prev: Option<(f64, f64)> = None; // (p, lambda) of last in-domain accurate point
        for &p in &ps {
            acc.hist("branch", gamma_branch(a, p));
            if let Some((l, judged)) = check_gamma_point(a, p, acc) {
                if judged {
                    if let Some((pp, pl)) = prev {
                        acc.inc("monotone_pairs");
                        if l < pl {
                            // allowed only within the accuracy tolerance
                            let (c1, _) = inc_gamma(a, pl);
                            let (c2, _) = inc_gamma(a, l);
                            if c1 - c2 > 4e-8 {
                                acc.violate(
                                    format!("C12/non-monotone/a={}/p={}", bits(a), bits(p)),
                                    "monotone in p up to tolerance",
                                    format!("a={a:e}: lambda({pp:e})={pl:e} > lambda({p:e})={l:e}"),
                                    json!({"engine":"kernel","kind":"gamma-pair","a":jf(a),"p1":jf(pp),"p":jf(p)}),
                                );
                            }
                        }
                    }
                    prev = Some((p, l));
                }
            }
            if i % 37 == 0 && acc.samples.len() < 3 && p > 0.4 {
                acc.sample(json!({"a": a, "p": p, "branch": gamma_branch(a, p)}));
            }
        }
        acc.inc("a_rows");
    });
    let bind = crate::sprops::c12_binding(ctx);
    acc.merge(bind);
    acc.violations
        .sort_by(|a, b| (a.key.as_str(), a.what.as_str()).cmp(&(b.key.as_str(), b.what.as_str())));
    let branches = acc.hist.get("branch").map(|h| h.len()).unwrap_or(0);
    if acc.samples.is_empty() {
        acc.sample(json!({"a": agrid[0], "p": 0.5}));
    }
    let mut extra = serde_json::Map::new();
    extra.insert("branches_populated".into(), json!(branches));
    let fin = Finish {
        level: "exploration",
        rule: "deterministic (a,p) lattice: log-spaced a plus ulp-neighbours of 0.05, 0.3, 1±1e-8, 1, 100; p = 0, 2^-k, 1-2^-k, i/n, 10^-e, 1-10^-e and per-a the p placing b=(1-p)Γ(a) on every start-value threshold ±2 ulp and the p whose quantile is a(1+δ) or 3a(1+δ) (thresholds on the Cornish-Fisher estimate); every point is a distinct input; non-trivial = points where the accuracy clause was judged (true quantile >= 1e-13); plus the sampler binding: samples over the p alphabet whose metadata lambda must satisfy the same relation for (dod, coordinate 2E-2)".into(),
        states: 0,
        transitions: 0,
        traces: 0,
        evaluations: acc.get("evaluations") + acc.get("binding_points"),
        distinct_nontrivial: acc.get("accuracy_judged") + acc.get("binding_judged"),
        exhaustive: true,
        bounds: json!({"a_values": agrid.len(), "a_range": [0.05, 100.0], "max_iter": 50, "epsilon_tolerance": 5.0}),
        assumptions: vec!["reference P(a,x), Q(a,x) by series / Lentz continued fraction with libm lgamma (unit-tested against closed forms)".into()],
        extra,
    };
    finish(ctx, &acc, fin)
}

pub fn replay_gamma(case: &Value) -> i32 {
    let a = unjf(&case["a"]);
    let mut acc = Acc::new();
    if case["kind"] == "gamma-pair" {
        for k in ["p1", "p"] {
            let p = unjf(&case[k]);
            eprintln!("inverse_gamma_lr({a:e},{p:e}) -> {:?}", call_gamma(a, p).0);
        }
        return 1;
    }
    let p = unjf(&case["p"]);
    let (o, m) = call_gamma(a, p);
    eprintln!("inverse_gamma_lr(a={a:e}, p={p:e}, 50, 5.0) -> {o:?} {m}");
    if let GammaObs::Ok(l) = o {
        let (pp, qq) = inc_gamma(a, l);
        eprintln!("  reference P(a,lambda) = {pp:e}, Q = {qq:e}; reference quantile = {:e}", oracle::special::inv_gamma_p(a, p));
    }
    check_gamma_point(a, p, &mut acc);
    for v in &acc.violations {
        eprintln!("  reproduced: [{}] {}", v.clause, v.what);
    }
    if acc.violations.is_empty() {
        eprintln!("  no violation reproduced");
        0
    } else {
        1
    }
}

// =====================================================================================================
// matrices (C15, C16a)
// =====================================================================================================

pub fn make_matrix(n: usize, data: &[f64]) -> SquareMatrix<f64> {
    let mut m = SquareMatrix::new_zeros_from_num(&0.0f64, n);
    for i in 0..n {
        for j in 0..n {
            m[(i, j)] = data[i * n + j];
        }
    }
    m
}

fn flat(m: &SquareMatrix<f64>) -> Vec<f64> {
    let n = m.get_dim();
    let mut v = Vec::with_capacity(n * n);
    for i in 0..n {
        for j in 0..n {
            v.push(m[(i, j)]);
        }
    }
    v
}

#[derive(Clone, Debug)]
pub struct Decomp {
    pub determinant: f64,
    pub inverse: Vec<f64>,
    pub q_t: Vec<f64>,
    pub q_t_inv: Vec<f64>,
}

#[derive(Clone, Debug)]
pub enum DecompObs {
    Ok(Decomp),
    ZeroDet,
    Unstable,
    Panic(String),
}

pub fn call_decompose(n: usize, data: &[f64], tol: Option<f64>) -> DecompObs {
    call_decompose_with(n, data, tol, false)
}

/// with the other two settings fields given as well (they must not change the verdict)
pub fn call_decompose_with(n: usize, data: &[f64], tol: Option<f64>, debug_and_metadata: bool) -> DecompObs {
    let st = TropicalSamplingSettings {
        matrix_stability_test: tol,
        print_debug_info: debug_and_metadata,
        return_metadata: debug_and_metadata,
    };
    let r = catch_unwind(AssertUnwindSafe(|| {
        let m = make_matrix(n, data);
        m.decompose_for_tropical(&st)
    }));
    match r {
        Ok(Ok(d)) => {
            let d: DecompositionResult<f64> = d;
            DecompObs::Ok(Decomp {
                determinant: d.determinant,
                inverse: flat(&d.inverse),
                q_t: flat(&d.q_transposed),
                q_t_inv: flat(&d.q_transposed_inverse),
            })
        }
        Ok(Err(MatrixError::ZeroDet)) => DecompObs::ZeroDet,
        Ok(Err(MatrixError::Unstable)) => DecompObs::Unstable,
        Err(e) => DecompObs::Panic(panic_message(e)),
    }
}

fn matrix_case(n: usize, data: &[f64], tol: Option<f64>) -> Value {
    json!({"engine": "kernel", "kind": "matrix", "n": n, "data": jf_vec(data), "tol": tol.map(jf)})
}

fn mkey(n: usize, data: &[f64]) -> String {
    let s: String = data.iter().map(|x| bits(*x)).collect::<Vec<_>>().join("");
    format!("{n}x{n}:{:016x}", fnv(&s))
}

/// norm-wise relative error: max|A-B| / max|B| (exact)
fn normwise(a: &QMat, b: &QMat) -> f64 {
    let d = a.sub(b).max_abs();
    let s = b.max_abs();
    if s.is_zero() {
        if d.is_zero() {
            0.0
        } else {
            f64::INFINITY
        }
    } else {
        q_to_f64(&(d / s))
    }
}

/// C15 judgement of one SPD matrix. `m` exact, cond = plain cond_1.
pub fn check_spd(n: usize, data: &[f64], acc: &mut Acc, family: &str) {
    let m = match QMat::from_f64(n, data) {
        Some(m) => m,
        None => return,
    };
    if !m.is_spd() {
        acc.inc("not_spd_skipped");
        return;
    }
    let inv = m.inverse().unwrap();
    let cond = q_to_f64(&(m.norm1() * inv.norm1()));
    if !(cond <= 1e10) {
        acc.inc("excluded_cond_gt_1e10");
        return;
    }
    let det = m.det();
    // range clause G4: determinant, entries of inverse within [1e-280,1e280]
    let ldet = q_log2(&det);
    let range_ok = ldet.abs() < 900.0 && q_log2(&inv.max_abs()).abs() < 900.0 && q_log2(&m.max_abs()).abs() < 450.0;
    if !range_ok {
        acc.inc("excluded_out_of_range");
        return;
    }
    acc.inc("spd_judged");
    acc.hist("family", family);
    acc.hist("dim", &n.to_string());
    let tau = 2f64.powi(-52) * 2f64.powi(14) * cond;
    let key = |c: &str| format!("C15/{c}/{}", mkey(n, data));
    let case = matrix_case(n, data, None);
    let d = match call_decompose(n, data, None) {
        DecompObs::Ok(d) => d,
        other => {
            acc.violate(key("not-ok"), "SPD input decomposes", format!("SPD matrix (cond {cond:e}) gave {other:?}"), case);
            return;
        }
    };
    let all_finite = d.determinant.is_finite()
        && d.inverse.iter().chain(&d.q_t).chain(&d.q_t_inv).all(|x| x.is_finite());
    if !all_finite {
        acc.violate(key("non-finite"), "finite result", "result contains a non-finite value".into(), case);
        return;
    }
    // structure: upper triangular, positive diagonal
    for i in 0..n {
        if !(d.q_t[i * n + i] > 0.0) {
            acc.violate(key("diag"), "positive diagonal", format!("q_transposed[{i},{i}] = {:e}", d.q_t[i * n + i]), case.clone());
            return;
        }
        for j in 0..i {
            if d.q_t[i * n + j] != 0.0 {
                acc.violate(key("triangular"), "upper triangular", format!("q_transposed[{i},{j}] = {:e} below the diagonal", d.q_t[i * n + j]), case.clone());
                return;
            }
        }
    }
    let qt = QMat::from_f64(n, &d.q_t).unwrap();
    let qti = QMat::from_f64(n, &d.q_t_inv).unwrap();
    let iv = QMat::from_f64(n, &d.inverse).unwrap();
    let e1 = normwise(&qt.transpose().mul(&qt), &m);
    let e2 = normwise(&qti.mul(&qt), &QMat::identity(n));
    let e3 = normwise(&iv, &inv);
    let e4 = rel_err(&qf(d.determinant), &det);
    for (name, e) in [("QtQ=M", e1), ("QtInv*Qt=I", e2), ("inverse", e3), ("determinant", e4)] {
        acc.max(&format!("err_units_tau[{name}]"), e / tau);
        if !(e <= tau) {
            acc.violate(
                key(name),
                name,
                format!("{name}: relative error {e:e} > tau {tau:e} (cond_1 = {cond:e})"),
                case.clone(),
            );
        }
    }
    if acc.samples.len() < 3 && n >= 3 {
        acc.sample(json!({"family": family, "n": n, "matrix": data, "cond_1": cond}));
    }
}

fn sym_from_parts(n: usize, diag: &[f64], off: &[f64]) -> Vec<f64> {
    let mut d = vec![0.0; n * n];
    let mut k = 0;
    for i in 0..n {
        d[i * n + i] = diag[i];
        for j in i + 1..n {
            d[i * n + j] = off[k];
            d[j * n + i] = off[k];
            k += 1;
        }
    }
    d
}

/// all symmetric matrices with diagonal in `dvals` and off-diagonal in `ovals`; callback gets flat data. Partitioned by `part`.
fn for_small_int_matrices<F: FnMut(&[f64])>(n: usize, dvals: &[f64], ovals: &[f64], part: usize, nparts: usize, mut f: F) {
    let noff = n * (n - 1) / 2;
    let total_d = dvals.len().pow(n as u32);
    let total_o = ovals.len().pow(noff as u32);
    let mut idx = 0usize;
    for di in 0..total_d {
        let mut diag = vec![0.0; n];
        let mut t = di;
        for x in diag.iter_mut() {
            *x = dvals[t % dvals.len()];
            t /= dvals.len();
        }
        for oi in 0..total_o {
            idx += 1;
            if idx % nparts != part {
                continue;
            }
            let mut off = vec![0.0; noff];
            let mut t = oi;
            for x in off.iter_mut() {
                *x = ovals[t % ovals.len()];
                t /= ovals.len();
            }
            f(&sym_from_parts(n, &diag, &off));
        }
    }
}

fn permuted(n: usize, data: &[f64], p: &[usize]) -> Vec<f64> {
    let mut d = vec![0.0; n * n];
    for i in 0..n {
        for j in 0..n {
            d[i * n + j] = data[p[i] * n + p[j]];
        }
    }
    d
}

/// deterministic structured families, dims 1..8
pub fn structured_families(tier: Tier) -> Vec<(String, usize, Vec<f64>)> {
    let mut res: Vec<(String, usize, Vec<f64>)> = vec![];
    for n in 1..=8usize {
        let mk = |f: &dyn Fn(usize, usize) -> f64| -> Vec<f64> {
            let mut d = vec![0.0; n * n];
            for i in 0..n {
                for j in 0..n {
                    d[i * n + j] = f(i, j);
                }
            }
            d
        };
        for s in [0.0, 0.01, 1.0] {
            res.push((format!("hilbert+{s}"), n, mk(&|i, j| 1.0 / (i + j + 1) as f64 + if i == j { s } else { 0.0 })));
        }
        res.push(("min(i,j)".into(), n, mk(&|i, j| (i.min(j) + 1) as f64)));
        res.push(("lehmer".into(), n, mk(&|i, j| (i.min(j) + 1) as f64 / (i.max(j) + 1) as f64)));
        res.push(("tridiagonal".into(), n, mk(&|i, j| if i == j { 2.0 } else if i.abs_diff(j) == 1 { -1.0 } else { 0.0 })));
        res.push(("ones+diag".into(), n, mk(&|i, j| 1.0 + if i == j { (i + 1) as f64 } else { 0.0 })));
        res.push(("arrow".into(), n, mk(&|i, j| if i == j { (n + 1) as f64 } else if i == 0 || j == 0 { 1.0 } else { 0.0 })));
        // Pascal
        let mut pas = vec![0.0; n * n];
        for i in 0..n {
            for j in 0..n {
                pas[i * n + j] = if i == 0 || j == 0 { 1.0 } else { pas[(i - 1) * n + j] + pas[i * n + j - 1] };
            }
        }
        res.push(("pascal".into(), n, pas));
        // graded D A D
        for k in tier.pick(vec![1, 4], vec![1, 2, 4, 8, 20]) {
            for sign in [1i32, -1] {
                let base = mk(&|i, j| if i == j { 2.0 } else { 1.0 / (1 + i.abs_diff(j)) as f64 });
                let mut d = base.clone();
                for i in 0..n {
                    for j in 0..n {
                        d[i * n + j] = base[i * n + j] * 2f64.powi(sign * k * i as i32) * 2f64.powi(sign * k * j as i32);
                    }
                }
                res.push((format!("graded 2^({}{k}i)", if sign > 0 { "+" } else { "-" }), n, d));
            }
        }
    }
    res.push(("wilson".into(), 4, vec![5., 7., 6., 5., 7., 10., 8., 7., 6., 8., 10., 9., 5., 7., 9., 10.]));
    // near-dependent rows (not a grading): L matrices of bananas whose shared edge dominates, L = diag(a_i) + c * ones
    for n in 2..=5usize {
        for c in [1e3, 1e6, 1e8, 1e9, 3e9] {
            let mut d = vec![c; n * n];
            for i in 0..n {
                d[i * n + i] = c + 1.0 + 0.25 * i as f64;
            }
            res.push((format!("shared-edge-dominance c={c:e}"), n, d));
        }
    }
    // scaled copies of every family member: well-conditioned matrices with very small / very large determinants
    let base: Vec<(String, usize, Vec<f64>)> = res.clone();
    for (name, n, d) in base {
        if n > 6 && tier == Tier::Quick {
            continue;
        }
        for k in [-40i32, -14, -7, 40] {
            res.push((format!("{name} x2^{k}"), n, d.iter().map(|x| x * 2f64.powi(k)).collect()));
        }
    }
    res
}

/// L matrices of graphs: S^T X S for banana / kite / mercedes style signatures with x from a graded alphabet
pub fn graph_l_matrices(tier: Tier) -> Vec<(String, usize, Vec<f64>)> {
    let mut res = vec![];
    let xs_alpha: Vec<f64> = tier.pick(vec![1.0, 0.125, 1e-3], vec![1.0, 0.125, 1e-3, 3.7, 1e-6]);
    // L-loop banana: edges 0..L with edge L carrying minus the sum: S = [I; -1..-1]
    for l in 1..=5usize {
        let ne = l + 1;
        let mut sig = vec![vec![0i64; l]; ne];
        for i in 0..l {
            sig[i][i] = 1;
            sig[l][i] = -1;
        }
        let total = xs_alpha.len().pow(ne as u32);
        for t in 0..total {
            let mut x = vec![0.0; ne];
            let mut k = t;
            for v in x.iter_mut() {
                *v = xs_alpha[k % xs_alpha.len()];
                k /= xs_alpha.len();
            }
            let mut d = vec![0.0; l * l];
            for i in 0..l {
                for j in 0..l {
                    let mut s = 0.0;
                    for e in 0..ne {
                        s += x[e] * (sig[e][i] * sig[e][j]) as f64;
                    }
                    d[i * l + j] = s;
                }
            }
            res.push((format!("banana-L{l}"), l, d));
        }
    }
    // mercedes: 3 loops
    let sig = [[1, 0, 0], [0, 1, 0], [0, 0, 1], [1, -1, 0], [0, 1, -1], [-1, 0, 1]];
    let total = xs_alpha.len().pow(6);
    for t in 0..total {
        let mut x = [0.0; 6];
        let mut k = t;
        for v in x.iter_mut() {
            *v = xs_alpha[k % xs_alpha.len()];
            k /= xs_alpha.len();
        }
        let mut d = vec![0.0; 9];
        for i in 0..3 {
            for j in 0..3 {
                let mut s = 0.0;
                for e in 0..6 {
                    s += x[e] * (sig[e][i] * sig[e][j]) as f64;
                }
                d[i * 3 + j] = s;
            }
        }
        res.push(("mercedes".into(), 3, d));
    }
    res
}

pub fn run_c15(ctx: &Ctx) -> i32 {
    let tier = ctx.tier;
    let dvals = [1.0, 2.0, 3.0, 4.0];
    let ovals = [-2.0, -1.0, 0.0, 1.0, 2.0];
    let max_n = 4;
    let stride4 = tier.pick(61usize, 1usize);
    let fams = structured_families(tier);
    let lms = graph_l_matrices(tier);
    let nparts = 64;
    let n_items = nparts + fams.len() + 16;
    let mut acc = par_for(n_items, |i, acc| {
        if i < nparts {
            for n in 1..=max_n {
                let mut cnt = 0usize;
                for_small_int_matrices(n, &dvals, &ovals, i, nparts, |d| {
                    cnt += 1;
                    if n == 4 && cnt % stride4 != 0 {
                        return;
                    }
                    acc.inc("evaluations");
                    check_spd(n, d, acc, "small-int");
                });
            }
        } else if i < nparts + fams.len() {
            let (name, n, d) = &fams[i - nparts];
            if *n <= 5 {
                for p in all_permutations(*n) {
                    acc.inc("evaluations");
                    check_spd(*n, &permuted(*n, d, &p), acc, name.split('+').next().unwrap_or(name));
                }
            } else {
                acc.inc("evaluations");
                check_spd(*n, d, acc, name.split('+').next().unwrap_or(name));
                // reversal permutation exercises the other pivot order
                let p: Vec<usize> = (0..*n).rev().collect();
                acc.inc("evaluations");
                check_spd(*n, &permuted(*n, d, &p), acc, name.split('+').next().unwrap_or(name));
            }
        } else {
            let part = i - nparts - fams.len();
            for (k, (name, n, d)) in lms.iter().enumerate() {
                if k % 16 == part {
                    acc.inc("evaluations");
                    check_spd(*n, d, acc, name);
                }
            }
        }
    });
    // second observation point: the decomposition handed out in a sample's metadata is the routine's result for the
    // L matrix handed out next to it (bit for bit)
    {
        use crate::sampler::*;
        let cases: Vec<CaseSpec> = crate::sprops::fam_for(Tier::Quick, "C15").into_iter().step_by(3).collect();
        let meta = par_for(cases.len(), |i, acc| {
            let case = match Case::new(&cases[i]) {
                Some(c) => c,
                None => return,
            };
            let r = match route(&case, &case.base_kin()) {
                Ok(r) => r,
                Err(_) => return,
            };
            let order: Vec<usize> = (0..case.g.ne()).collect();
            let roles = Roles { u: false, xi: true, p: true, ab: false, xi_moderate: true, xi_ladder: false };
            for (x, _) in sector_points(&case, &order, 1, &roles) {
                for stab in [None, Some(1e-6)] {
                    let st = crate::obs::Settings { stability: stab, debug: false, metadata: true };
                    if let crate::obs::Outcome::Ok(s) = r.sampler.sample(&x, &r.ed, &st) {
                        if let Some(m) = &s.meta {
                            acc.inc("evaluations");
                            acc.inc("metadata_decompositions_compared");
                            let same = match call_decompose(m.nl, &m.l_matrix, stab) {
                                DecompObs::Ok(d) => {
                                    let eq = |a: &[f64], b: &[f64]| a.len() == b.len() && a.iter().zip(b).all(|(x, y)| x.to_bits() == y.to_bits());
                                    d.determinant.to_bits() == m.decomp.determinant.to_bits() && eq(&d.inverse, &m.decomp.inverse) && eq(&d.q_t, &m.decomp.q_transposed) && eq(&d.q_t_inv, &m.decomp.q_transposed_inverse)
                                }
                                _ => false,
                            };
                            if !same {
                                acc.violate(
                                    format!("C15/metadata-decomposition/{:016x}", fnv(&crate::obs::graph_json(&case.g).to_string())),
                                    "the decomposition in the metadata is the routine's result for the L matrix of that sample",
                                    "Metadata.decompoisiton_result differs from decompose_for_tropical(Metadata.l_matrix)".into(),
                                    point_case(&case, &r.kin, &x, &st, json!({"prop": "C15"})),
                                );
                                return;
                            }
                        }
                    }
                }
            }
        });
        acc.merge(meta);
        acc.violations.sort_by(|a, b| (a.key.as_str(), a.what.as_str()).cmp(&(b.key.as_str(), b.what.as_str())));
    }
    if acc.samples.is_empty() {
        acc.sample(json!({"note": "no sample"}));
    }
    let fin = Finish {
        level: "exploration",
        rule: "complete enumeration of symmetric integer matrices (diag 1..4, off-diagonal -2..2) up to dim 3 and dim 4 (every 61st matrix in quick, all 4 000 000 in thorough), structured families dims 1..8 in all simultaneous row/column permutations (dim<=5), and L matrices of banana (1..5 loops) and mercedes graphs over a graded x alphabet; non-trivial = exactly SPD, cond_1 <= 1e10, in range, judged against exact rational inverse/determinant".into(),
        states: 0,
        transitions: 0,
        traces: 0,
        evaluations: acc.get("evaluations"),
        distinct_nontrivial: acc.get("spd_judged"),
        exhaustive: true,
        bounds: json!({"small_int_max_dim": max_n, "dim4_stride": stride4, "families_max_dim": 8, "cond_cap": 1e10, "tau": "2^-52*2^14*cond_1"}),
        assumptions: vec!["exact rational linear algebra (oracle::linalg, unit-tested)".into()],
        extra: Default::default(),
    };
    finish(ctx, &acc, fin)
}

// ------------------------------------------------------------------------------------------- C16 (a)

/// exact L_{2,1} distance between inverse*M and I: Σ_j sqrt(Σ_i z_ij²)
fn l21_exact(inv: &QMat, m: &QMat) -> f64 {
    let z = inv.mul(m).sub(&QMat::identity(m.n));
    let mut s = 0.0;
    for j in 0..m.n {
        let mut c = Q::zero();
        for i in 0..m.n {
            c += &z.a[i][j] * &z.a[i][j];
        }
        s += q_to_f64(&c).sqrt();
    }
    s
}

pub const TOLS: [Option<f64>; 8] = [
    None,
    Some(0.0),
    Some(1e-300),
    Some(1e-12),
    Some(1e-6),
    Some(1.0),
    Some(1e300),
    Some(f64::INFINITY),
];

pub fn check_failure_reporting(n: usize, data: &[f64], tol: Option<f64>, acc: &mut Acc, class: &str) {
    acc.inc("evaluations");
    let key = |c: &str| format!("C16/{c}/{}/tol={}", mkey(n, data), tol.map(bits).unwrap_or_else(|| "None".into()));
    let case = matrix_case(n, data, tol);
    let observed = call_decompose(n, data, tol);
    // the zero pivot product is a property of the factor, which does not depend on the stability setting: a matrix reported
    // as ZeroDet without the test is ZeroDet with it (both failure conditions at once: ZeroDet takes precedence)
    if tol.is_some() {
        // the outcome without the test is the same for every tolerance: computed once per matrix
        thread_local! {
            static LAST: std::cell::RefCell<(u64, bool)> = const { std::cell::RefCell::new((0, false)) };
        }
        let h = fnv(&mkey(n, data));
        let zerodet_without_test = LAST.with(|c| {
            let mut c = c.borrow_mut();
            if c.0 != h {
                *c = (h, matches!(call_decompose(n, data, None), DecompObs::ZeroDet));
            }
            c.1
        });
        if zerodet_without_test {
            acc.inc("zerodet_precedence_judged");
            if !matches!(observed, DecompObs::ZeroDet | DecompObs::Panic(_)) {
                acc.violate(
                    key("zero-pivot-product-yields-ZeroDet-with-the-test-on"),
                    "a Cholesky factor with an exactly zero pivot product yields the ZeroDet error",
                    format!("ZeroDet without the stability test, but {} with matrix_stability_test = {:?}", match &observed { DecompObs::Ok(_) => "Ok", DecompObs::Unstable => "Unstable", _ => "?" }, tol),
                    case.clone(),
                );
            }
        }
    }
    // the verdict under print_debug_info / return_metadata is the verdict without them (the NaN clause in particular)
    if matches!(tol, Some(t) if t == 0.0 || t == 1e-6 || t == f64::INFINITY || class == "embedded-nondefinite" || class == "named") {
        let kind = |o: &DecompObs| match o {
            DecompObs::Ok(d) => format!("Ok(det bits {:016x})", d.determinant.to_bits()),
            DecompObs::ZeroDet => "ZeroDet".to_string(),
            DecompObs::Unstable => "Unstable".to_string(),
            DecompObs::Panic(_) => "Panic".to_string(),
        };
        let loud = call_decompose_with(n, data, tol, true);
        acc.inc("verdicts_compared_with_debug_output_on");
        if kind(&loud) != kind(&observed) {
            acc.violate(
                key("verdict-depends-on-print_debug_info"),
                "the stability verdict does not depend on print_debug_info / return_metadata",
                format!("{} with the quiet settings but {} with print_debug_info = return_metadata = true (tol {:?})", kind(&observed), kind(&loud), tol),
                case.clone(),
            );
        }
    }
    match observed {
        DecompObs::Panic(p) => {
            // the property does not promise panic-freedom for arbitrary matrices; record only
            acc.inc("panics_recorded");
            let _ = p;
        }
        DecompObs::ZeroDet => acc.inc(&format!("zerodet[{class}]")),
        DecompObs::Unstable => acc.inc(&format!("unstable[{class}]")),
        DecompObs::Ok(d) => {
            acc.inc(&format!("ok[{class}]"));
            if d.determinant == 0.0 {
                acc.violate(key("ok-zero-determinant"), "never Ok with zero determinant", format!("Ok with determinant {:e}", d.determinant), case.clone());
            }
            // pivot product in index order
            let mut prod = 1.0f64;
            for i in 0..n {
                prod *= d.q_t[i * n + i];
            }
            if prod == 0.0 {
                acc.violate(key("ok-zero-pivot-product"), "zero pivot product yields ZeroDet", "Ok although the product of the returned factor's diagonal is exactly 0".into(), case.clone());
            }
            if let Some(t) = tol {
                if !t.is_nan() {
                    let has_nan = d.determinant.is_nan()
                        || d.inverse.iter().chain(&d.q_t).chain(&d.q_t_inv).any(|x| x.is_nan());
                    if has_nan {
                        acc.violate(
                            key("ok-nan-with-stability-test"),
                            "NaN decomposition never Ok when the stability test is on",
                            format!("Ok with NaN entries although matrix_stability_test = Some({t:e})"),
                            case.clone(),
                        );
                    } else if let (Some(iv), Some(m)) = (QMat::from_f64(n, &d.inverse), QMat::from_f64(n, data)) {
                        acc.inc("stability_distance_recomputed");
                        let dist = l21_exact(&iv, &m);
                        // the implementation evaluates the distance in f64: allow twice the rigorous first-order bound of that
                        // evaluation, (n+2) u (|inv| |M| + I) entrywise, aggregated in the L21 norm
                        let u = 2f64.powi(-53);
                        let mut bound = 0.0f64;
                        for j in 0..n {
                            let mut col = 0.0f64;
                            for i in 0..n {
                                let mut sabs = if i == j { 1.0 } else { 0.0 };
                                // products with an exact zero factor are exact zeros and adding them is exact: only the k
                                // non-zero products of the dot product round (k multiplications, k-1 additions, 1 subtraction)
                                let mut nz = 0usize;
                                for k in 0..n {
                                    let p = (d.inverse[i * n + k] * data[k * n + j]).abs();
                                    if p != 0.0 {
                                        nz += 1;
                                    }
                                    sabs += p;
                                }
                                let e = (nz as f64 + 2.0) * u * sabs;
                                col += e * e;
                            }
                            bound += col.sqrt();
                        }
                        let slack = 2.0 * bound + 8.0 * u * dist;
                        // how decisive the family is: exact distance in units of the slack (> 1: a wrong verdict is visible)
                        acc.max(&format!("c16_distance_over_slack[{class}]"), dist / slack);
                        if std::env::var("C16_DEBUG").is_ok() && dist / slack > 0.5 {
                            eprintln!("C16_DEBUG {class} n={n} tol={t:e} dist={dist:e} slack={slack:e} data={data:?}");
                        }
                        let near = dist <= t + slack || (dist - t).abs() <= 1e-12 * t.abs().max(dist);
                        if dist > t && !near {
                            acc.violate(
                                key("ok-beyond-tolerance"),
                                "Ok only if L21 distance <= tol",
                                format!("Ok although the exact L21 distance {dist:e} exceeds tol {t:e}"),
                                case.clone(),
                            );
                        }
                    } else {
                        // infinities in the inverse: distance is not <= any finite tol
                        if t.is_finite() {
                            acc.violate(
                                key("ok-inf-with-stability-test"),
                                "Ok only if L21 distance <= tol",
                                "Ok with infinite entries in the inverse under a finite tolerance".into(),
                                case.clone(),
                            );
                        }
                    }
                }
            }
        }
    }
}

pub fn run_c16a(ctx: &Ctx, acc_out: &mut Acc) {
    let tier = ctx.tier;
    let dvals = [0.0, 1.0, 2.0, 4.0];
    let ovals = [-2.0, -1.0, 0.0, 1.0, 2.0];
    let max_n = 3;
    let nparts = 64;
    let acc = par_for(nparts, |part, acc| {
        for n in 1..=max_n {
            for_small_int_matrices(n, &dvals, &ovals, part, nparts, |d| {
                let m = QMat::from_f64(n, d).unwrap();
                let class = if m.is_spd() {
                    "definite"
                } else if m.det().is_zero() {
                    "singular"
                } else {
                    "indefinite"
                };
                acc.hist("class", class);
                for tol in TOLS {
                    check_failure_reporting(n, d, tol, acc, class);
                }
                if class == "definite" && n <= tier.pick(2, 3) {
                    for s in [-500, -200, 200, 500] {
                        let sd: Vec<f64> = d.iter().map(|x| x * 2f64.powi(s)).collect();
                        for tol in [None, Some(1e-6)] {
                            check_failure_reporting(n, &sd, tol, acc, "definite-scaled");
                        }
                    }
                }
                if acc.samples.len() < 3 && n == 3 && class != "definite" {
                    acc.sample(json!({"n": n, "matrix": d, "class": class}));
                }
            });
        }
        if tier == Tier::Thorough {
            // dimension 4 over a reduced alphabet (3^4 * 3^6 = 59 049 matrices)
            for_small_int_matrices(4, &[0.0, 1.0, 2.0], &[-1.0, 0.0, 1.0], part, nparts, |d| {
                let m = QMat::from_f64(4, d).unwrap();
                let class = if m.is_spd() { "definite" } else if m.det().is_zero() { "singular" } else { "indefinite" };
                acc.hist("class", class);
                for tol in TOLS {
                    check_failure_reporting(4, d, tol, acc, class);
                }
            });
        }
        if part == 1 {
            // ill-conditioned but positive definite matrices x a ladder of tolerances around the size of the residual:
            // the only place where a test that looks at the wrong residual can be told apart from rounding noise
            // (exact distance above the rigorous evaluation bound)
            let mut ill: Vec<(usize, Vec<f64>)> = vec![];
            let mut fam: Vec<(usize, Vec<f64>, &'static str)> = vec![];
            // a weakly coupled, nearly degenerate loop (border b ~ beta, Schur complement s far below b^T A^-1 b): the inverse
            // loses its accuracy in that loop's row only; the loop sits last, first or in the middle; dims 3..8
            for n in 3..=8usize {
                for (beta, sc) in [(1e-9, 1e-24), (1e-6, 1e-18), (1e-4, 1e-13), (1e-2, 1e-9)] {
                    for pos in [n - 1, 0, n / 2] {
                        let mut d = vec![0.0; n * n];
                        let mut schur = 0.0;
                        let mut k = 0;
                        for i in 0..n {
                            if i == pos {
                                continue;
                            }
                            let a = 1.0 + 0.1 * k as f64;
                            let b = beta * (1.0 + 0.37 * k as f64).sqrt();
                            d[i * n + i] = a;
                            d[i * n + pos] = b;
                            d[pos * n + i] = b;
                            schur += b * b / a;
                            k += 1;
                        }
                        d[pos * n + pos] = schur + sc;
                        fam.push((n, d, "bordered"));
                    }
                }
            }
            for n in 5..=8usize {
                let mut h = vec![0.0; n * n];
                for i in 0..n {
                    for j in 0..n {
                        h[i * n + j] = 1.0 / (i + j + 1) as f64;
                    }
                }
                ill.push((n, h.clone()));
                ill.push((n, h.iter().map(|x| x * 2f64.powi(-20)).collect()));
                let mut pas = vec![0.0; n * n];
                for i in 0..n {
                    for j in 0..n {
                        pas[i * n + j] = if i == 0 || j == 0 { 1.0 } else { pas[(i - 1) * n + j] + pas[i * n + j - 1] };
                    }
                }
                ill.push((n, pas));
            }
            for c in [1e6, 1e8, 1e10, 1e11] {
                ill.push((2, vec![c + 1.0, c, c, c + 1.25]));
                ill.push((3, vec![c + 1.0, c, c, c, c + 1.25, c, c, c, c + 1.5]));
            }
            // badly scaled (graded) matrices: the residual is large while the evaluation bound stays small; both orders of the scales
            for (a, b) in [(1e8, 1e-6), (1e6, 1e-8), (1e10, 1e-4), (1e4, 1e-12)] {
                ill.push((2, vec![a, 3.0, 3.0, b]));
                ill.push((2, vec![b, 3.0, 3.0, a]));
                ill.push((3, vec![a, 3.0, 1.0, 3.0, 1.0, 2e-3, 1.0, 2e-3, b]));
                ill.push((3, vec![b, 2e-3, 1.0, 2e-3, 1.0, 3.0, 1.0, 3.0, a]));
            }
            // beyond the 6x6 inline capacity: a well-conditioned tridiagonal block coupled weakly to an ill-conditioned block
            // that sits in the LAST rows (the error of the inverse lives in rows 7, 8) or, as a control, in the first rows
            for n in 6..=8usize {
                for c in [1e6, 1e8, 1e10] {
                    for (at_end, blk) in [(true, 2usize), (false, 2), (true, 3)] {
                        let mut d = vec![0.0; n * n];
                        for i in 0..n {
                            d[i * n + i] = 2.0;
                            if i + 1 < n {
                                d[i * n + i + 1] = -0.5;
                                d[(i + 1) * n + i] = -0.5;
                            }
                        }
                        let o = if at_end { n - blk } else { 0 };
                        for i in 0..blk {
                            for j in 0..blk {
                                d[(o + i) * n + o + j] = c + if i == j { 1.0 + 0.25 * i as f64 } else { 0.0 };
                            }
                        }
                        if QMat::from_f64(n, &d).map(|m| m.is_spd()).unwrap_or(false) {
                            ill.push((n, d));
                        }
                    }
                }
            }
            // ill-conditioned although the Cholesky pivots are balanced: a coupling far above the leading diagonal entry
            // ([[a, c], [c, c^2/a + delta]], also embedded behind / in front of a unit block)
            for a in [1.3, 0.7] {
                for c in [1e3, 1.1e6, 3.3e7] {
                    for delta in [0.7, 1e-2] {
                        let m22 = c * c / a + delta;
                        fam.push((2, vec![a, c, c, m22], "balanced-pivots"));
                        fam.push((3, vec![1.0, 0.0, 0.0, 0.0, a, c, 0.0, c, m22], "balanced-pivots"));
                        fam.push((3, vec![a, c, 0.0, c, m22, 0.25, 0.0, 0.25, 1.0], "balanced-pivots"));
                    }
                }
            }
            // graded 2x2 blocks (large residual, small evaluation bound) embedded behind / in front of a unit block: the error of
            // the inverse sits in the last (first) two rows of a 6x6 ... 8x8 matrix
            for n in 6..=8usize {
                for (a, b) in [(1e8, 1e-6), (1e6, 1e-8), (1e10, 1e-4), (1e4, 1e-12)] {
                    for at_end in [true, false] {
                        for swap in [false, true] {
                            let mut d = vec![0.0; n * n];
                            for i in 0..n {
                                d[i * n + i] = 1.0 + 0.25 * i as f64;
                            }
                            let o = if at_end { n - 2 } else { 0 };
                            let (p, q) = if swap { (b, a) } else { (a, b) };
                            d[o * n + o] = p;
                            d[o * n + o + 1] = 3.0;
                            d[(o + 1) * n + o] = 3.0;
                            d[(o + 1) * n + o + 1] = q;
                            fam.push((n, d, "graded-block"));
                        }
                    }
                }
            }
            for (n, d, class) in fam {
                acc.hist("class", class);
                for e in 3..=16 {
                    check_failure_reporting(n, &d, Some(10f64.powi(-e)), acc, class);
                }
                check_failure_reporting(n, &d, Some(f64::INFINITY), acc, class);
            }
            for (n, d) in ill {
                acc.hist("class", "ill-conditioned-definite");
                check_failure_reporting(n, &d, Some(f64::INFINITY), acc, "ill-conditioned");
                for e in 3..=16 {
                    check_failure_reporting(n, &d, Some(10f64.powi(-e)), acc, "ill-conditioned");
                }
            }
        }
        if part == 2 {
            // POSITION alphabet up to 8x8 (beyond the 6x6 inline capacity): a unit matrix with, at every diagonal position, an
            // indefinite 2x2 block (NaN pivot), a semi-definite one (zero pivot) or a 1e-310 entry (the inverse overflows)
            for n in 2..=8usize {
                for pos in 0..n {
                    let unit = |n: usize| {
                        let mut d = vec![0.0; n * n];
                        for i in 0..n {
                            d[i * n + i] = 1.0 + 0.125 * i as f64;
                        }
                        d
                    };
                    let mut tiny = unit(n);
                    tiny[pos * n + pos] = 1e-310;
                    let mut cases = vec![tiny];
                    if pos + 1 < n {
                        for blk in [[1.0, 2.0, 2.0, 1.0], [1.0, 1.0, 1.0, 1.0], [2.0, 1.0, 1.0, 0.5 + 1e-17]] {
                            let mut d = unit(n);
                            d[pos * n + pos] = blk[0];
                            d[pos * n + pos + 1] = blk[1];
                            d[(pos + 1) * n + pos] = blk[2];
                            d[(pos + 1) * n + pos + 1] = blk[3];
                            cases.push(d);
                        }
                    }
                    for d in cases {
                        acc.hist("class", "embedded-nondefinite");
                        for tol in TOLS {
                            check_failure_reporting(n, &d, tol, acc, "embedded-nondefinite");
                        }
                    }
                }
            }
        }
        if part == 0 {
            // named witnesses of the design (always included)
            for (n, d) in [
                (2usize, vec![1.0, 2.0, 2.0, 1.0]),
                (2, vec![0.0, 1.0, 1.0, 1.0]),
                (2, vec![1e-200, 0.0, 0.0, 1e-200]),
                (2, vec![2.0, 2.0, 2.0, 2.0]),
                (1, vec![0.0]),
                (1, vec![-1.0]),
                (3, vec![1e-120, 0.0, 0.0, 0.0, 1e-120, 0.0, 0.0, 0.0, 1e-120]),
            ] {
                for tol in TOLS {
                    check_failure_reporting(n, &d, tol, acc, "named");
                }
            }
        }
    });
    acc_out.merge(acc);
}


// ------------------------------------------------------------------------------------------- C16 (a'): reciprocal faults
//
// With f64 the returned inverse is as good as the f64 evaluation of its own residual, so a wrong verdict of the stability
// test is hidden below the rigorous rounding bound. Here the ENVIRONMENT deviates instead: the generic routine runs on the
// tracking scalar `Tr` (f64 arithmetic) whose reciprocal answers `factor / x` at one designated `inv()` call (or at all of
// them). The returned inverse is then wrong at the 2^-10 .. 2^-20 level, its exact L21 distance is many orders above the
// rounding bound of the residual's evaluation, and "Ok only if distance <= tol" is decidable for tolerances taken at
// fractions of that distance.

fn call_decompose_tr(n: usize, data: &[f64], tol: Option<f64>, fault: Option<(usize, f64)>) -> DecompObs {
    use crate::scalar::{set_inv_fault, Tr};
    let st = TropicalSamplingSettings { matrix_stability_test: tol, print_debug_info: false, return_metadata: false };
    let r = catch_unwind(AssertUnwindSafe(|| {
        let mut m = SquareMatrix::new_zeros_from_num(&Tr::new(0.0, 0), n);
        for i in 0..n {
            for j in 0..n {
                m[(i, j)] = Tr::new(data[i * n + j], 0);
            }
        }
        set_inv_fault(fault);
        let r = m.decompose_for_tropical(&st);
        set_inv_fault(None);
        r
    }));
    set_inv_fault(None);
    let fl = |m: &SquareMatrix<Tr>| {
        let mut v = Vec::with_capacity(n * n);
        for i in 0..n {
            for j in 0..n {
                v.push(m[(i, j)].v);
            }
        }
        v
    };
    match r {
        Ok(Ok(d)) => DecompObs::Ok(Decomp { determinant: d.determinant.v, inverse: fl(&d.inverse), q_t: fl(&d.q_transposed), q_t_inv: fl(&d.q_transposed_inverse) }),
        Ok(Err(MatrixError::ZeroDet)) => DecompObs::ZeroDet,
        Ok(Err(MatrixError::Unstable)) => DecompObs::Unstable,
        Err(e) => DecompObs::Panic(panic_message(e)),
    }
}

/// rigorous first-order bound of the f64 evaluation of ||inv*M - I||_{2,1} (any summation order), see check_failure_reporting
fn l21_rounding_bound(n: usize, inverse: &[f64], data: &[f64]) -> f64 {
    let u = 2f64.powi(-53);
    let mut bound = 0.0f64;
    for j in 0..n {
        let mut col = 0.0f64;
        for i in 0..n {
            let mut sabs = if i == j { 1.0 } else { 0.0 };
            for k in 0..n {
                sabs += (inverse[i * n + k] * data[k * n + j]).abs();
            }
            let e = (n as f64 + 2.0) * u * sabs;
            col += e * e;
        }
        bound += col.sqrt();
    }
    bound
}

pub const FAULT_FACTORS: [f64; 3] = [1.0 + 1.0 / 1024.0, 1.0 - 1.0 / 1024.0, 1.0 + 1.0 / 1048576.0];
const FAULT_FRACTIONS: usize = 32;

/// one (matrix, fault) pair: all tolerances d*k/32 (k = 1..31) and next_down(d)
pub fn check_reciprocal_fault(n: usize, data: &[f64], which: usize, factor: f64, acc: &mut Acc, class: &str) {
    acc.inc("evaluations");
    acc.inc("reciprocal_fault_runs");
    let base = match call_decompose_tr(n, data, None, Some((which, factor))) {
        DecompObs::Ok(d) => d,
        _ => {
            acc.inc("reciprocal_fault_not_ok_without_test");
            return;
        }
    };
    if base.inverse.iter().any(|x| !x.is_finite()) {
        return;
    }
    let (Some(iv), Some(m)) = (QMat::from_f64(n, &base.inverse), QMat::from_f64(n, data)) else { return };
    let dist = l21_exact(&iv, &m);
    let u = 2f64.powi(-53);
    let slack = 2.0 * l21_rounding_bound(n, &base.inverse, data) + 8.0 * u * dist;
    acc.max(&format!("c16_fault_distance_over_slack[{class}]"), dist / slack);
    if !(dist > 64.0 * slack) {
        acc.inc("reciprocal_fault_not_decisive");
        return;
    }
    acc.inc("reciprocal_fault_decisive");
    let mut tols: Vec<f64> = (1..FAULT_FRACTIONS).map(|k| dist * k as f64 / FAULT_FRACTIONS as f64).collect();
    tols.push(dist * (1.0 - 1.0 / 1024.0));
    for t in tols {
        if !(dist - t > slack) {
            continue;
        }
        acc.inc("evaluations");
        acc.inc("reciprocal_fault_tolerances_judged");
        let obs = call_decompose_tr(n, data, Some(t), Some((which, factor)));
        if let DecompObs::Ok(d) = obs {
            // the inverse is the one judged above (the routine is deterministic); if it is not, judge the one returned
            let dist2 = match QMat::from_f64(n, &d.inverse) {
                Some(iv2) => l21_exact(&iv2, &m),
                None => f64::INFINITY,
            };
            if dist2 - t > slack {
                let mut case = matrix_case(n, data, Some(t));
                case["fault"] = json!({"inv_call": if which == usize::MAX { -1i64 } else { which as i64 }, "factor": jf(factor)});
                acc.violate(
                    format!("C16/ok-beyond-tolerance-under-reciprocal-fault/{}/call={}/f={}/tol={}", mkey(n, data), which as i64, bits(factor), bits(t)),
                    "Ok only if L21 distance <= tol (scalar with an inexact reciprocal)",
                    format!("Ok although the exact L21 distance {dist2:e} of the returned inverse exceeds tol {t:e} by {:.1} times the rounding slack (reciprocal of pivot {} answered {factor}/x)", (dist2 - t) / slack, which as i64),
                    case,
                );
            }
        }
    }
}

pub fn run_c16_faults(ctx: &Ctx, acc_out: &mut Acc) {
    let mut mats: Vec<(String, usize, Vec<f64>)> = vec![];
    // well-conditioned SPD matrices: dense, arrowhead, tridiagonal, graph L matrices at the centre of the hypercube
    for n in 2..=(if ctx.tier == Tier::Quick { 6usize } else { 8 }) {
        let mut dense = vec![0.0; n * n];
        let mut arrow = vec![0.0; n * n];
        let mut tri = vec![0.0; n * n];
        let mut graded = vec![0.0; n * n];
        for i in 0..n {
            for j in 0..n {
                dense[i * n + j] = if i == j { n as f64 + 1.0 + 0.25 * i as f64 } else { 1.0 / (1.0 + (i as f64 - j as f64).abs()) };
                arrow[i * n + j] = if i == j { 4.0 + i as f64 } else if i == 0 || j == 0 { 1.0 } else { 0.0 };
                tri[i * n + j] = if i == j { 2.5 } else if (i as i64 - j as i64).abs() == 1 { -1.0 } else { 0.0 };
                graded[i * n + j] = if i == j { 4f64.powi(i as i32) * 3.0 } else { 2f64.powi((i + j) as i32) * 0.5 };
            }
        }
        for (nm, d) in [("dense", dense), ("arrow", arrow), ("tridiagonal", tri), ("graded", graded)] {
            // both orders of the rows/columns (residual above or below the diagonal)
            let rev: Vec<usize> = (0..n).rev().collect();
            mats.push((format!("{nm}{n}r"), n, permuted(n, &d, &rev)));
            mats.push((format!("{nm}{n}"), n, d));
        }
    }
    for (name, n, d) in graph_l_matrices(ctx.tier) {
        if n >= 2 {
            mats.push((name, n, d));
        }
    }
    let items: Vec<(usize, usize, f64)> = mats
        .iter()
        .enumerate()
        .flat_map(|(mi, (_, n, _))| {
            let mut v = vec![];
            for &f in &FAULT_FACTORS {
                for k in 0..*n {
                    v.push((mi, k, f));
                }
                v.push((mi, usize::MAX, f));
            }
            v
        })
        .collect();
    let acc = par_for(items.len(), |i, acc| {
        let (mi, k, f) = items[i];
        let (_, n, d) = &mats[mi];
        check_reciprocal_fault(*n, d, k, f, acc, "reciprocal-fault");
    });
    acc_out.merge(acc);
}

pub fn replay_matrix(ctx: &Ctx, case: &Value) -> i32 {
    let n = case["n"].as_u64().unwrap() as usize;
    let data = unjf_vec(&case["data"]);
    let tol = if case["tol"].is_null() { None } else { Some(unjf(&case["tol"])) };
    let mut acc = Acc::new();
    eprintln!("matrix {n}x{n} {:?} tol {:?}", data, tol);
    if !case["fault"].is_null() {
        let k = case["fault"]["inv_call"].as_i64().unwrap();
        let which = if k < 0 { usize::MAX } else { k as usize };
        let factor = unjf(&case["fault"]["factor"]);
        let mut acc = Acc::new();
        eprintln!("reciprocal fault: inv() call {k} answers {factor}/x; observed: {:?}", call_decompose_tr(n, &data, tol, Some((which, factor))));
        check_reciprocal_fault(n, &data, which, factor, &mut acc, "replay");
        for v in &acc.violations {
            eprintln!("  reproduced: [{}] {}", v.clause, v.what);
        }
        return if acc.violations.is_empty() {
            eprintln!("  no violation reproduced");
            0
        } else {
            1
        };
    }
    eprintln!("observed: {:?}", call_decompose(n, &data, tol));
    if ctx.prop == "C15" {
        check_spd(n, &data, &mut acc, "replay");
    } else {
        check_failure_reporting(n, &data, tol, &mut acc, "replay");
    }
    for v in &acc.violations {
        eprintln!("  reproduced: [{}] {}", v.clause, v.what);
    }
    if acc.violations.is_empty() {
        eprintln!("  no violation reproduced");
        0
    } else {
        1
    }
}

// =====================================================================================================
// C20 vectors and scalar primitives
// =====================================================================================================

pub fn sigma() -> Vec<f64> {
    vec![
        0.0,
        -0.0,
        1.0,
        -1.0,
        1.0 / 3.0,
        f64::from_bits(1),
        -f64::from_bits(1),
        f64::MIN_POSITIVE,
        f64::MAX,
        -1e308,
        1.0 + f64::EPSILON,
        std::f64::consts::PI,
        0.1,
        0.2,
        0.3,
        1e16,
    ]
}

fn same(a: f64, b: f64) -> bool {
    (a.is_nan() && b.is_nan()) || a.to_bits() == b.to_bits()
}

fn vec_case(d: usize, op: &str, a: &[f64], b: &[f64], s: f64) -> Value {
    json!({"engine": "kernel", "kind": "vector", "D": d, "op": op, "a": jf_vec(a), "b": jf_vec(b), "s": jf(s)})
}

/// all vector operators on one operand pair (a, b) and scalar s; returns number of operator evaluations
fn check_vec_pair<const D: usize>(a: &[f64; D], b: &[f64; D], s: f64, acc: &mut Acc) -> u64 {
    let va = Vector::<f64, D>::from_array(*a);
    let vb = Vector::<f64, D>::from_array(*b);
    let mut bad = |op: &str, got: &[f64], want: &[f64]| {
        acc.violate(
            format!("C20/vector-{op}/D={D}/{:016x}", fnv(&format!("{a:?}{b:?}{s:?}"))),
            op,
            format!("D={D} {op}: got {got:?}, componentwise IEEE gives {want:?} (a={a:?}, b={b:?}, s={s:e})"),
            vec_case(D, op, a, b, s),
        );
    };
    let cmpv = |got: [f64; D], want: [f64; D]| -> bool { got.iter().zip(want.iter()).all(|(x, y)| same(*x, *y)) };
    let mut n = 0;
    // add / sub
    let want: [f64; D] = std::array::from_fn(|i| a[i] + b[i]);
    let got = (&va + &vb).get_elements();
    n += 1;
    if !cmpv(got, want) {
        bad("add", &got, &want);
    }
    let want: [f64; D] = std::array::from_fn(|i| a[i] - b[i]);
    let got = (&va - &vb).get_elements();
    n += 1;
    if !cmpv(got, want) {
        bad("sub", &got, &want);
    }
    // scaling by value and by reference
    let want: [f64; D] = std::array::from_fn(|i| a[i] * s);
    let got = (&va * s).get_elements();
    n += 1;
    if !cmpv(got, want) {
        bad("mul-by-value", &got, &want);
    }
    let got = (&va * &s).get_elements();
    n += 1;
    if !cmpv(got, want) {
        bad("mul-by-ref", &got, &want);
    }
    // +=, and the derived quantities of the UPDATED vector (a cached norm must not survive the update)
    let mut vc = va;
    let _ = vc.squared();
    vc += vb;
    let want: [f64; D] = std::array::from_fn(|i| a[i] + b[i]);
    n += 1;
    if !cmpv(vc.get_elements(), want) {
        bad("add-assign", &vc.get_elements(), &want);
    }
    let mut w2 = 0.0f64;
    for i in 0..D {
        w2 += want[i] * want[i];
    }
    n += 1;
    if !same(vc.squared(), w2) || !same(vc.dot(&vc), w2) {
        bad("squared-after-add-assign", &[vc.squared()], &[w2]);
    }
    // element written through IndexMut, then squared
    let mut vd = va;
    let _ = vd.squared();
    vd[D - 1] = b[0];
    let mut w3 = 0.0f64;
    for i in 0..D {
        let c = if i == D - 1 { b[0] } else { a[i] };
        w3 += c * c;
    }
    n += 1;
    if !same(vd.squared(), w3) {
        bad("squared-after-index-mut", &[vd.squared()], &[w3]);
    }
    // dot, accumulated from +0 at index 0 upward; symmetric
    let mut w = 0.0f64;
    for i in 0..D {
        w += a[i] * b[i];
    }
    let got = va.dot(&vb);
    n += 1;
    if !same(got, w) {
        bad("dot", &[got], &[w]);
    }
    let got2 = vb.dot(&va);
    n += 1;
    if !same(got2, got) {
        bad("dot-symmetric", &[got2], &[got]);
    }
    // squared = dot(v,v)
    let mut w = 0.0f64;
    for i in 0..D {
        w += a[i] * a[i];
    }
    let got = va.squared();
    n += 1;
    if !same(got, w) || !same(got, va.dot(&va)) {
        bad("squared", &[got], &[w]);
    }
    n
}

fn check_vec_constructors<const D: usize>(a: &[f64; D], acc: &mut Acc) {
    let mut bad = |op: &str| {
        acc.violate(
            format!("C20/vector-{op}/D={D}/{:016x}", fnv(&format!("{a:?}"))),
            op,
            format!("D={D} {op} does not round-trip {a:?}"),
            vec_case(D, op, a, a, 0.0),
        );
    };
    let eq = |x: [f64; D]| x.iter().zip(a.iter()).all(|(p, q)| same(*p, *q));
    if !eq(Vector::<f64, D>::from_array(*a).get_elements()) {
        bad("from_array");
    }
    if !eq(Vector::<f64, D>::from_vec(a.to_vec()).get_elements()) {
        bad("from_vec");
    }
    if !eq(Vector::<f64, D>::from_slice(a).get_elements()) {
        bad("from_slice");
    }
    // a Vec of exactly D elements however it was built: spare capacity, grown by push, shrunk by truncate
    {
        let mut spare: Vec<f64> = Vec::with_capacity(2 * D + 3);
        spare.extend_from_slice(a);
        let mut pushed: Vec<f64> = vec![];
        for x in a.iter() {
            pushed.push(*x);
        }
        let mut cut: Vec<f64> = a.iter().cloned().chain([1.0, 2.0, 3.0]).collect();
        cut.truncate(D);
        for (name, v) in [("from_vec(with spare capacity)", spare), ("from_vec(grown by push)", pushed), ("from_vec(truncated)", cut)] {
            match std::panic::catch_unwind(std::panic::AssertUnwindSafe(|| Vector::<f64, D>::from_vec(v).get_elements())) {
                Ok(e) if eq(e) => {}
                _ => bad(name),
            }
        }
    }
    let v = Vector::<f64, D>::from_array(*a);
    if v.len() != D {
        bad("len");
    }
    for i in 0..D {
        if !same(v[i], a[i]) {
            bad("index");
        }
    }
    let mut w = v;
    for i in 0..D {
        w[i] = a[D - 1 - i];
    }
    for i in 0..D {
        if !same(w[i], a[D - 1 - i]) {
            bad("index_mut");
        }
    }
    let z = v.new().get_elements();
    let z2 = Vector::<f64, D>::new_from_num(&a[0]).get_elements();
    if !z.iter().chain(z2.iter()).all(|x| x.to_bits() == 0) || v.zero().to_bits() != 0 {
        bad("zero-constructors");
    }
}

/// full product of the alphabet over both operands (D <= 3), scalar cycles through the alphabet
fn vec_full<const D: usize>(alpha: &[f64], part: usize, nparts: usize, acc: &mut Acc) {
    let k = alpha.len();
    let total = k.pow(2 * D as u32);
    let mut t = part;
    while t < total {
        let mut a = [0.0; D];
        let mut b = [0.0; D];
        let mut r = t;
        for i in 0..D {
            a[i] = alpha[r % k];
            r /= k;
        }
        for i in 0..D {
            b[i] = alpha[r % k];
            r /= k;
        }
        let s = alpha[(t / 7) % k];
        let n = check_vec_pair::<D>(&a, &b, s, acc);
        acc.add("evaluations", n);
        acc.inc("operand_pairs");
        if b.iter().all(|x| x.to_bits() == 0) {
            check_vec_constructors::<D>(&a, acc);
            acc.inc("constructor_cases");
        }
        t += nparts;
    }
}

/// all operand pairs within `dev` deviations from the all-1/3 vectors
fn vec_deviations<const D: usize>(alpha: &[f64], dev: usize, part: usize, nparts: usize, acc: &mut Acc) {
    let npos = 2 * D;
    let base = 1.0 / 3.0;
    let mut count = 0usize;
    let mut run = |pos: &[usize], vals: &[usize], acc: &mut Acc| {
        count += 1;
        if count % nparts != part {
            return;
        }
        let mut a = [base; D];
        let mut b = [base; D];
        for (p, v) in pos.iter().zip(vals) {
            if *p < D {
                a[*p] = alpha[*v];
            } else {
                b[*p - D] = alpha[*v];
            }
        }
        let s = alpha[count % alpha.len()];
        let n = check_vec_pair::<D>(&a, &b, s, acc);
        acc.add("evaluations", n);
        acc.inc("operand_pairs");
        if pos.len() <= 1 {
            check_vec_constructors::<D>(&a, acc);
            acc.inc("constructor_cases");
        }
    };
    run(&[], &[], acc);
    let k = alpha.len();
    for p1 in 0..npos {
        for v1 in 0..k {
            run(&[p1], &[v1], acc);
            if dev >= 2 {
                for p2 in p1 + 1..npos {
                    for v2 in 0..k {
                        run(&[p1, p2], &[v1, v2], acc);
                        if dev >= 3 {
                            for p3 in p2 + 1..npos {
                                for v3 in 0..k {
                                    run(&[p1, p2, p3], &[v1, v2, v3], acc);
                                    if dev >= 4 && D <= 5 {
                                        for p4 in p3 + 1..npos {
                                            for v4 in (0..k).step_by(3) {
                                                run(&[p1, p2, p3, p4], &[v1, v2, v3, v4], acc);
                                            }
                                        }
                                    }
                                }
                            }
                        }
                    }
                }
            }
        }
    }
}

fn check_scalar(acc: &mut Acc) {
    let sg = sigma();
    let mut extra = sg.clone();
    extra.extend([2.0, 0.5, -2.5, 10.0, 1e-5, 700.0, -700.0, 1e300, f64::INFINITY, f64::NEG_INFINITY, 1e-308, -1e-308, 2f64.powi(-1023), 3e-310, 2f64.powi(-1074) * 3.0, 1e308, f64::NAN]);
    let mut bad = |op: &str, x: f64, y: f64, got: f64, want: f64| {
        acc.violate(
            format!("C20/scalar-{op}/{}/{}", bits(x), bits(y)),
            op,
            format!("f64::{op}({x:e}, {y:e}) = {got:e}, std gives {want:e}"),
            json!({"engine":"kernel","kind":"scalar","op":op,"x":jf(x),"y":jf(y)}),
        );
    };
    let mut n = 0u64;
    for &x in &extra {
        let t: [(&str, f64, f64); 9] = [
            ("inv", MomTropFloat::inv(&x), 1.0 / x),
            ("abs", MomTropFloat::abs(&x), f64::abs(x)),
            ("ln", MomTropFloat::ln(&x), f64::ln(x)),
            ("exp", MomTropFloat::exp(&x), f64::exp(x)),
            ("sin", MomTropFloat::sin(&x), f64::sin(x)),
            ("cos", MomTropFloat::cos(&x), f64::cos(x)),
            ("sqrt", MomTropFloat::sqrt(&x), f64::sqrt(x)),
            ("from_f64", x.from_f64(x), x),
            ("to_f64", MomTropFloat::to_f64(&x), x),
        ];
        for (op, got, want) in t {
            n += 1;
            if !same(got, want) {
                bad(op, x, 0.0, got, want);
            }
        }
        for &y in &extra {
            n += 1;
            let got = MomTropFloat::powf(&x, &y);
            let want = f64::powf(x, y);
            if !same(got, want) {
                bad("powf", x, y, got, want);
            }
            let got = x.from_f64(y);
            n += 1;
            if !same(got, y) {
                bad("from_f64", x, y, got, y);
            }
        }
        n += 3;
        if !same(MomTropFloat::PI(&x), std::f64::consts::PI) {
            bad("PI", x, 0.0, MomTropFloat::PI(&x), std::f64::consts::PI);
        }
        if MomTropFloat::zero(&x).to_bits() != 0 {
            bad("zero", x, 0.0, MomTropFloat::zero(&x), 0.0);
        }
        if !same(MomTropFloat::one(&x), 1.0) {
            bad("one", x, 0.0, MomTropFloat::one(&x), 1.0);
        }
    }
    // from_isize exact on ±2^k±1, |v| <= 2^53, plus all small integers
    let mut ints: Vec<i64> = (-300..=300).collect();
    for k in 0..=53u32 {
        for d in [-1i64, 0, 1] {
            let v = (1i64 << k) + d;
            if v.abs() <= (1i64 << 53) {
                ints.push(v);
                ints.push(-v);
            }
        }
    }
    for v in ints {
        n += 1;
        let got = 1.0f64.from_isize(v as isize);
        if qf(got) != qi(v) {
            bad("from_isize", v as f64, 0.0, got, v as f64);
        }
    }
    acc.add("evaluations", n);
    acc.add("scalar_cases", n);
}

pub fn run_c20(ctx: &Ctx) -> i32 {
    let tier = ctx.tier;
    let sg = sigma();
    let nparts = 64;
    let dev = tier.pick(3, 4);
    let mut acc = par_for(nparts + 1, |part, acc| {
        if part == nparts {
            check_scalar(acc);
            return;
        }
        vec_full::<1>(&sg, part, nparts, acc);
        vec_full::<2>(&sg, part, nparts, acc);
        vec_full::<3>(&sg, part, nparts, acc);
        if tier == Tier::Thorough {
            vec_full::<4>(&sg, part, nparts, acc);
        }
        vec_deviations::<3>(&sg, 2, part, nparts, acc);
        vec_deviations::<4>(&sg, dev, part, nparts, acc);
        vec_deviations::<5>(&sg, dev, part, nparts, acc);
        vec_deviations::<6>(&sg, dev, part, nparts, acc);
        vec_deviations::<7>(&sg, dev, part, nparts, acc);
        vec_deviations::<8>(&sg, dev, part, nparts, acc);
    });
    acc.sample(json!({"D": 3, "a": [1.0/3.0, f64::MAX, -0.0], "b": [0.1, -1e308, 5e-324], "ops": "add sub mul(by value, by ref) += dot squared"}));
    let fin = Finish {
        level: "exploration",
        rule: "component alphabet of 16 boundary values (signed zeros, subnormals, MAX, cancellation and non-associative triples); full product over both operands for D=1,2,3 (thorough: also D=4); D=4..8 all operand pairs within the tier's deviation bound from the all-1/3 vectors; every operator evaluated against componentwise IEEE with index-0-upward accumulation, compared by bit pattern; scalar trait on f64 vs std over the alphabet and its square; non-trivial = distinct operand pairs".into(),
        states: 0,
        transitions: 0,
        traces: 0,
        evaluations: acc.get("evaluations"),
        distinct_nontrivial: acc.get("operand_pairs"),
        exhaustive: true,
        bounds: json!({"D": [1,8], "deviation_bound_D>=4": dev, "alphabet": sg.iter().map(|x| format!("{x:e}")).collect::<Vec<_>>()}),
        assumptions: vec!["NaN payloads are not compared".into()],
        extra: Default::default(),
    };
    finish(ctx, &acc, fin)
}

pub fn replay_vector(case: &Value) -> i32 {
    eprintln!("vector/scalar case: {case}");
    let mut acc = Acc::new();
    if case["kind"] == "scalar" {
        check_scalar(&mut acc);
    } else {
        let d = case["D"].as_u64().unwrap() as usize;
        let a = unjf_vec(&case["a"]);
        let b = unjf_vec(&case["b"]);
        let s = unjf(&case["s"]);
        macro_rules! go {
            ($($n:literal),*) => { match d { $($n => { let aa: [f64; $n] = a.clone().try_into().unwrap(); let bb: [f64; $n] = b.clone().try_into().unwrap(); check_vec_pair::<$n>(&aa, &bb, s, &mut acc); check_vec_constructors::<$n>(&aa, &mut acc); })* _ => {} } };
        }
        go!(1, 2, 3, 4, 5, 6, 7, 8);
    }
    for v in &acc.violations {
        eprintln!("  reproduced: [{}] {}", v.clause, v.what);
    }
    if acc.violations.is_empty() {
        eprintln!("  no violation reproduced");
        0
    } else {
        1
    }
}

#[allow(dead_code)]
fn _unused(_: &Q) -> bool {
    Q::one().is_positive()
}

pub fn run_c16(ctx: &Ctx) -> i32 {
    let mut acc = Acc::new();
    // diagnostic: C16_ONLY_FAULTS=1 runs the reciprocal-fault pass alone (not used by any registered command)
    let only_faults = std::env::var("C16_ONLY_FAULTS").is_ok();
    if !only_faults {
        run_c16a(ctx, &mut acc);
    }
    run_c16_faults(ctx, &mut acc);
    if !only_faults {
        let b = crate::sampler::c16b_pass(ctx);
        acc.merge(b);
    }
    acc.violations
        .sort_by(|a, b| (a.key.as_str(), a.what.as_str()).cmp(&(b.key.as_str(), b.what.as_str())));
    let nontrivial = acc.hist.get("class").map(|h| h.iter().filter(|(k, _)| k.as_str() != "definite").map(|(_, v)| *v).sum::<u64>()).unwrap_or(0)
        + acc.get("c16b_corner_points");
    let fin = Finish {
        level: "exploration",
        rule: "(a) complete enumeration of symmetric integer matrices dims 1..3 (diag 0,1,2,4; off-diagonal -2..2: definite, semi-definite, indefinite, zero pivots) and 2^±200/±500 scaled copies of the definite ones x 8 tolerances incl. None, 0, +inf; (b) corner x-space points of accepted multi-loop graphs through sample() with the stability test on; non-trivial = non-definite matrices plus corner points".into(),
        states: 0,
        transitions: 0,
        traces: 0,
        evaluations: acc.get("evaluations"),
        distinct_nontrivial: nontrivial,
        exhaustive: true,
        bounds: json!({"max_dim_complete_enumeration": 3, "families": "position alphabet (indefinite / semi-definite / 1e-310 blocks at every diagonal position) dims 2..8; Hilbert, Pascal, sunrise-like, graded, bordered, balanced-pivot, graded-block families to 8x8 x 14 tolerances", "reciprocal_faults": "tracking scalar, one inv() answer (each call position, and all) times 1+2^-10 / 1-2^-10 / 1+2^-20; dense, arrowhead, tridiagonal, graded SPD matrices dims 2..6 (thorough 8) in both row orders + graph L matrices; tolerances d*k/32, k=1..31, and d(1-2^-10); judged only where d - tol > rigorous slack", "relations": ["ZeroDet without the test => ZeroDet with it", "verdict with print_debug_info = return_metadata = true == quiet verdict"], "tolerances": TOLS.iter().map(|t| format!("{t:?}")).collect::<Vec<_>>()}),
        assumptions: vec!["tol = NaN is outside 'all tolerances'".into(), "panics on non-definite input are recorded, not judged (the property does not promise panic-freedom there)".into()],
        extra: Default::default(),
    };
    finish(ctx, &acc, fin)
}


/// diagnostic: exact L21 distance of the returned inverse, rigorous rounding bound of its f64 evaluation, verdicts per tolerance
pub fn probe_stability() {
    let mut mats: Vec<(String, usize, Vec<f64>)> = vec![];
    for n in 3..=8usize {
        let mut d = vec![0.0; n * n];
        for i in 0..n {
            for j in 0..n {
                d[i * n + j] = 1.0 / (i + j + 1) as f64;
            }
        }
        mats.push((format!("hilbert{n}"), n, d));
    }
    for c in [1e3, 1e6, 1e8, 1e10] {
        mats.push((format!("sunrise c={c:e}"), 2, vec![c + 1.0, c, c, c + 1.25]));
    }
    for (name, n, d) in structured_families(Tier::Thorough) {
        if n >= 5 && !name.contains("x2^") {
            mats.push((name.clone(), n, d.clone()));
            let p: Vec<usize> = (0..n).rev().collect();
            mats.push((format!("{name} reversed"), n, permuted(n, &d, &p)));
        }
    }
    for (name, n, d) in mats {
        let m = QMat::from_f64(n, &d).unwrap();
        if let DecompObs::Ok(dec) = call_decompose(n, &d, None) {
            let iv = match QMat::from_f64(n, &dec.inverse) {
                Some(x) => x,
                None => continue,
            };
            let dist = l21_exact(&iv, &m);
            // rigorous first-order bound of the f64 evaluation of l21(inverse*M - I)
            let u = 2f64.powi(-53);
            let mut b = 0.0;
            for j in 0..n {
                let mut col = 0.0;
                for i in 0..n {
                    let mut sabs = if i == j { 1.0 } else { 0.0 };
                    for k in 0..n {
                        sabs += (dec.inverse[i * n + k] * d[k * n + j]).abs();
                    }
                    let e = (n as f64 + 2.0) * u * sabs;
                    col += e * e;
                }
                b += col.sqrt();
            }
            let mut verdicts = vec![];
            for t in [1e-15, 1e-13, 1e-11, 1e-9, 1e-7, 1e-5, 1e-3] {
                verdicts.push(format!("{t:e}:{}", match call_decompose(n, &d, Some(t)) { DecompObs::Ok(_) => "Ok", DecompObs::Unstable => "Unst", _ => "?" }));
            }
            let cond = m.cond1().map(|c| q_to_f64(&c)).unwrap_or(f64::NAN);
            if dist > 1.5 * b || name.starts_with("hilbert") {
                eprintln!("{name}: cond {cond:e} exact dist {dist:e} rigorous bound {b:e} ratio {:.2}  {}", dist / b, verdicts.join(" "));
            }
        }
    }
}
