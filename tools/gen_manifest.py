#!/usr/bin/env python3
"""Generates /verif/MANIFEST.json from the table below (single source of truth for what is claimed)."""
import json, os, sys

ALL = [f"C{i:02d}" for i in range(1, 21)]

# id -> (engine, level, technique, text, note, design_ref)
CHECKS = {
    "C03": ("table", "model_checking",
            "explicit-state enumeration: all configurations in scope x all 2^E lattice states of the real table vs union-find reference model",
            "Every multigraph configuration of the stated scope (labelled, no symmetry reduction) is built with the real build_sampler and every one of its 2^E table entries and every lattice edge is compared with an independent exact reference model; the state space per configuration is covered completely.",
            "Trusted: the reference model (oracle crate, unit-tested against the matrix-tree theorem), serde as observation window, exact fixed-point arithmetic for the weight alphabet. Bounds: E<=3 over 3 labels, E=4 over 4 labels (strided in quick), D=1..6, weight alphabets W3/W6.",
            "DESIGN.md §5/C03"),
    "C04": ("table", "model_checking",
            "explicit-state enumeration of the subset lattice; J recursion re-derived in exact rationals on every transition, E! maximal paths summed",
            "For every accepted configuration in scope every J entry is compared with the exact rational recursion over the implementation's own omegas, every edge-probability row is summed exactly, all E! maximal paths are summed, and the cached normalisation is recomputed with an independent Gamma.",
            "Trusted: BigRational arithmetic, libm tgamma. Tolerance 2^-52*2^14 on J (sums of positive terms), 1e-11 on the normalisation.",
            "DESIGN.md §5/C04"),
    "C05": ("table", "model_checking",
            "exhaustive configuration enumeration with exact omega oracle; all E! hash-set iteration orders enumerated through the verif-hooks seam",
            "Every build attempt in scope is classified by exact omegas (must-reject / must-accept / either within 1e-9) and compared with the real outcome under catch_unwind; each graph is additionally built under every one of the E! hash iteration orders and the serialised tables must be byte-identical.",
            "Trusted: exact fixed-point omegas; the seam reproduces production hashing when no order is installed. E up to 10 only for the no-panic clause; E near 64 is not explorable (2^E table).",
            "DESIGN.md §5/C05"),
    "C12": ("kernel", "exploration",
            "exhaustive enumeration of a deterministic (a,p) lattice built from the code's own branch thresholds, vs independent P(a,x)",
            "Every point of a dense deterministic lattice over shape a in [0.05,100] and p in [0,1) - including p=0, p within 2^-53 of 0 and 1, ulp neighbours of every start-value branch threshold and of the a~1 window - is evaluated with the real inverse_gamma_lr under catch_unwind and judged: Err or finite positive; accurate to 2e-8 where the true quantile >= 1e-13 (an Err there is a violation too); monotone along each a-row. The lattice also contains, per a, the p whose quantile is a(1+d) or 3a(1+d) (thresholds on the Cornish-Fisher estimate). Sampler binding: on explored executions the metadata lambda must satisfy the same relation for (dod, coordinate 2E-2), a GammaError must surface as Err, and samplers of different dod written into the same memory slot must not share a quantile.",
            "Trusted: reference P/Q by series and Lentz continued fraction with libm lgamma. A lattice, not the continuum: values between lattice points are not covered.",
            "DESIGN.md §5/C12"),
    "C15": ("kernel", "exploration",
            "complete enumeration of small-integer SPD matrices and structured families vs exact rational linear algebra",
            "All symmetric integer matrices with diagonal 1..4 and off-diagonal -2..2 up to dim 3 (quick) / 4 (thorough), structured families (Hilbert-like, graded, Pascal, Lehmer, min, tridiagonal, arrow, Wilson) dims 1..8 in all simultaneous permutations for dim<=5, near-dependent matrices diag(a)+c*ones (c up to 3e9), 2^k-scaled copies of every family member, and L matrices of banana and mercedes graphs, are decomposed with the real routine and compared with the exact inverse, determinant and factor identities, tolerance 2^-52*2^14*cond_1; the decomposition handed out in a sample's metadata is compared bit-for-bit with the routine's result for the L matrix handed out next to it.",
            "Trusted: exact BigRational linear algebra. cond_1 <= 1e10 and range clause as the property states.",
            "DESIGN.md §5/C15"),
    "C16": ("kernel", "exploration",
            "complete enumeration of small symmetric matrices (definite, semi-definite, indefinite) x tolerance alphabet; exact recomputation of the L21 distance; deviation-bounded fault injection (one perturbed reciprocal answer of the scalar type at every call position) with tolerances enumerated at fractions of the exact distance",
            "Every symmetric integer matrix of the alphabet up to dim 3, plus 2^±200/±500 scaled copies, under 8 tolerances (None, 0, 1e-300 ... +inf): Ok implies non-zero determinant and pivot product, and with the test on Ok implies no NaN and an exactly recomputed L21 distance <= tol + 2B, B the rigorous first-order bound of the f64 evaluation of that distance; an ill-conditioned SPD family x a ladder of 14 tolerances covers the only zone where a wrong residual can be refuted soundly (exact distance above 2B). Corner x-space points of multi-loop graphs through sample() with the test on must not return Ok with a NaN decomposition.",
            "Trusted: exact rational recomputation of inverse*M - I. Panics on non-definite input are recorded, not judged.",
            "DESIGN.md §5/C16"),
    "C20": ("kernel", "exploration",
            "full product of a 16-value boundary alphabet over both operands (D<=3, thorough D<=4), deviation-bounded for D=4..8, bit-exact IEEE oracle",
            "Every Vector operator and constructor (including squared/dot of a vector after += and after a write through IndexMut) and every f64 MomTropFloat method is evaluated on the complete product of a boundary-value alphabet and compared bit-for-bit with componentwise IEEE arithmetic accumulated from +0 at index 0 upward.",
            "Trusted: Rust's f64 arithmetic as the IEEE reference. NaN payloads not compared.",
            "DESIGN.md §5/C20"),
    "C07": ("sampler", "model_checking",
            "stateless deviation-bounded exploration of the sampler state machine (all E! sectors x answer sequences with <=k deviations), every execution replayed against the reference machine",
            "For every admissible configuration of the family, every sector is entered and every answer sequence within the deviation bound (full alphabet product for small graphs) is executed on the real sampler with debug logging; the logged unrescaled parameters are compared with the sector formula computed from the oracle's own exact omegas, the logged tropical polynomials with brute-force maxima over spanning trees / F monomials in exact rationals, and the rescaling with the normalisation identity.",
            "Trusted: oracle crate; the `log` feature as observation window. Domain clauses G1-G5 (DESIGN §4.3); selection answers closer than 1e-9 to a boundary are excluded as the property states.",
            "DESIGN.md §5/C07"),
    "C08": ("sampler", "model_checking",
            "stateless exploration of sectors x answer deviations x routing orbit (all elementary unimodular basis changes, all edge flips), exact spanning-tree oracle",
            "Every explored execution's L matrix is checked bitwise symmetric and entry-wise against the exact sum; u against the exact spanning-tree polynomial (tolerance 2^-52*2^14*cond_1(L)); and u is compared across the whole routing orbit at fixed x.",
            "Trusted: oracle tree enumeration (unit-tested against the matrix-tree theorem). Graphs with 1..5 loops (bananas, flowers, family up to E<=5).",
            "DESIGN.md §5/C08"),
    "C09": ("sampler", "model_checking",
            "stateless exploration of sectors x answer deviations x routing orbit incl. loop-momentum offsets, exact 2-forest oracle",
            "Every explored execution's u_vectors and v are compared with the exact 2-forest polynomial F/U (tolerance scaled by the exact cancellation ratio), and u, v, jacobian and the logged Feynman parameters are compared across cycle bases, orientations and offsets at fixed x.",
            "Trusted: oracle forest enumeration and kinematics generator (momentum conservation asserted for every routing).",
            "DESIGN.md §5/C09"),
    "C10": ("sampler", "model_checking",
            "stateless deviation-bounded exploration incl. Gamma and Box-Muller answers; exact quadratic-form identity per execution",
            "Every explored execution (42 (D,L) cells - D = 1..6 x L = 1..5 and D = 7, 8, 10, 11 x L = 1..3 - through bananas and flowers, plus the family) is checked for the quadratic-form identity at the returned momenta, shift = L^-1 u exactly, and the linear form Q^T(k+shift) = sqrt(v/2 lambda) q which pins the orientation of the factor.",
            "Trusted: exact rational evaluation from the returned f64 values; condition-scaled tolerance.",
            "DESIGN.md §5/C10"),
    "C11": ("sampler", "model_checking",
            "stateless deviation-bounded exploration; jacobian recomputed from returned u,v and from the gauge-free oracle formula at rescaled and unrescaled parameters",
            "Every explored execution: u_trop = v_trop = 1 exactly; jacobian equals normalisation*u^(-D/2)*v^(-dod) from the returned fields; and equals the oracle's I_tr Gamma(dod)/prod Gamma(nu) pi^(DL/2) (U_tr/U)^(D/2) (V_tr/V)^dod evaluated in exact arithmetic at both the rescaled and the unrescaled logged parameters (gauge invariance).",
            "Trusted: oracle J recursion, libm Gamma, brute-force tropical maxima.",
            "DESIGN.md §5/C11"),
    "C13": ("sampler", "model_checking",
            "exhaustive (a,b) alphabet product on two pairs, <=2 deviations elsewhere, over 42 (D,L) cells (D = 1..6 x L = 1..5 and D = 7, 8, 10, 11 x L = 1..3)",
            "All 42 (D,L) cells: every Gaussian component of every explored execution is compared with the Box-Muller transform of its designated pair (layout loop-major, last sine dropped for odd D*L).",
            "Trusted: libm sqrt/log/sin/cos as reference.",
            "DESIGN.md §5/C13"),
    "C02": ("sampler", "model_checking",
            "stateless deviation-bounded exploration into hypercube corners (xi alphabet 2^-1074..1-2^-53, interval-end selections), exact N_T, c_min, C_sum, U, F per execution",
            "Every sector of every admissible configuration is explored with up to k extreme answers (full product when small) in two routings; at each execution the implementation's own logged tropical polynomials must bound the exactly computed U and V as the property states, and jacobian/normalisation as well as the returned (u_trop/u)^(D/2)(v_trop/v)^dod must lie in the graph-and-kinematics-only interval.",
            "Trusted: oracle polynomials; cancellation ratio of V <= 1e8 decided exactly by the oracle, never from the returned value.",
            "DESIGN.md §5/C02"),
    "C06": ("c06", "model_checking",
            "explicit enumeration of every reachable subgraph (state) of every accepted configuration; boundary-adjacent answer alphabet per state; 100% of lattice transitions witnessed",
            "For every oracle-accepted configuration in scope and every subset g with |g|>=2 the real sampler is driven to g and given every u of an alphabet built from the exact cumulative sums of its own table (interval ends, f64 neighbours of every boundary, 0, 2^-1074, 1-2^-52, 1-2^-53); the selected edge is read from the log and compared with the exact inversion; any panic is a violation. Every interior boundary is also approached from both sides by a double-double answer c_k +- 2^-75 that f64 cannot represent (any scalar type), and graphs with a weight hierarchy of 2^60 are included.",
            "Trusted: exact rational cumulative sums of the implementation's table values; removal order read through the `log` feature.",
            "DESIGN.md §5/C06"),
    "C14": ("c14", "model_checking",
            "stateless deviation-bounded exploration over all coordinate roles; non-interference checked as a 2-safety property over all pairs of explored points; per-execution dependence sets from a tracking scalar",
            "On the explored answer sequences of every configuration: slices of exactly get_dimension() never panic and appended poison coordinates never change a bit; for every pair of explored points agreeing on a coordinate group the outputs owned by that group are bit-identical (hash tables over the whole explored set); every coordinate has an explored alternative that changes the result; and a tracking scalar type yields per-execution dependence sets (u on xi only, each Gaussian component on exactly its pair, comparisons only on selection answers or Feynman-group data).",
            "Trusted: the tracking scalar (harness code). lambda crosses the f64 boundary, so its independence is shown by the 2-safety table, not by taint.",
            "DESIGN.md §5/C14"),
    "C19": ("c14", "exploration",
            "narrowing census with an instrumented scalar on every explored execution (all control-flow exits) + double-double scalar through the matrix kernel vs exact rationals",
            "(a) On every explored execution (all sectors in scope; Ok, Unstable and GammaError exits; metadata on/off) every to_f64 argument is a constant or exactly the designated coordinate, narrowed once, and the multiset of from_f64 arguments (Gamma result excepted) is identical across all points of a sector, so no user data passes through f64. (b) A double-double type run through decompose_for_tropical on structured SPD families and graph L matrices reproduces the exact inverse, determinant and factor identities to 2^-86*cond, 10^10 times tighter than any f64 detour allows, without a single to_f64 call. (c) The whole sampler is run with the double-double scalar (exp/ln/pow evaluated in double-double): on 2-4-loop bananas the rescaled parameters recovered from the returned L satisfy the tropical normalisation to 2^-80 and u, v the exact polynomials to 2^-86*cond, including kinematics where V cancels by 1e18.",
            "Trusted: instrumented scalar types (harness code), exact rational algebra. 'Any type' is represented by three types.",
            "DESIGN.md §5/C19"),
    "C01": ("c01", "model_checking",
            "stateless deviation-bounded exploration of the production path against a reference sampler built only from oracle pieces; exact closed-form anchors (massive tadpole) on the full alphabet product",
            "C01 equates two integrals; what bounded exploration decides is the pointwise refinement: on every explored execution with default settings the returned jacobian equals the weight of the paper's tropical sampler computed independently (own table, sector, kappas, exact U and F, own normalisation) and the returned momenta satisfy the routing-free Gaussian-map identity with the oracle's own Gamma quantile and Box-Muller values, in two routings; the absolute normalisation is pinned exactly on the E=1 family where the jacobian is constant over the hypercube, so its mean equals its value. The step from pointwise refinement to equality of the integrals is a cited theorem and is listed as an assumption in the evidence.",
            "Trusted: oracle crate; the continuum theorem (Schwinger/Feynman representation, Borinsky 2020). Not decided here: the integral identity itself.",
            "DESIGN.md §5/C01, §8"),
    "C17": ("history+sched", "model_checking",
            "exhaustive call histories to depth d on two samplers (differential oracle); preemption-bounded DFS over all thread interleavings under an own controlled scheduler on real OS threads; all E! hash orders; child processes",
            "All operation sequences up to the depth over a 42-operation alphabet are re-executed on freshly built samplers in single-threaded worker processes and every result is compared bit-for-bit with the same call on a fresh sampler, serialisations after every step; all schedules of 2 (thorough: also 3) threads sharing a sampler with at most p preemptions at scalar-operation granularity are executed under a baton scheduler (DFS with prefix replay, divergence = machinery error, a planted impurity must be caught first); get_dimension/from_rng/sample and a sampler with unequal non-dyadic weights under all E! hash iteration orders; digests across child processes; from_rng vs x-space equality and draw count (incl. scripted exact zeros, odd D with two loops); settings invariance incl. a failing stability test; history operations include an in-place rebuild of a different sampler and sampling with different edge data; a corpus of 175 configurations x 5 settings is compared bit-for-bit with momtrop built WITHOUT any cargo feature (harness/nolog).",
            "Trusted: the baton scheduler (harness code; replay determinism asserted per scenario). Preemption only at scalar-operation boundaries of generic code: races inside non-generic f64 code are outside (no shared state there today - source scan reported as assumption).",
            "DESIGN.md §5/C17, §8"),
    "C18": ("history", "model_checking",
            "every accepted configuration round-tripped through two formats; restored samplers sampled bit-for-bit on the explored answer set",
            "Every accepted configuration of G-small is serialised and restored through JSON and CBOR (re-serialisation byte-identical, table and accessors equal), every accepted configuration (disconnected ones included) is also sampled after restoring with a differential oracle, a third format that writes structs positionally is round-tripped, and for every admissible configuration of the sampling family samplers restored through JSON, CBOR, CBOR-then-JSON and the positional format give bit-identical samples (metadata on) on the whole 1-deviation answer set of up to 6 sectors; a ragged loop signature must survive too.",
            "Trusted: serde_json with float_roundtrip, ciborium. JSON cannot carry non-finite values; such samplers go through CBOR only.",
            "DESIGN.md §5/C18"),
}

NOT_BUILT_REASON = "check not built yet in this session (see DESIGN.md §10 for the plan); not claimed until it passes and has been mutation-tested"

# sentences appended to the text of a check (extensions made after the fourth round of seeded changes)
SIZE_LADDER = " SIZE LADDER: the same clauses on configurations beyond the implementation's capacity boundaries - more than 6 loops (inline 6x6 matrix storage), more than 8 edges, more than 64 signature entries (polygons to 10 edges, bananas and flowers to 8 loops, a 13-edge 5-loop graph; thorough: 12 edges, 9 loops, a 17-edge 4-loop graph) on a fixed sector subset."
OFFSET = " In addition to the basis orbit a loop-momentum offset routing is explored (every edge that carries a loop momentum, self-loops included, gets a non-zero shift)."
INPLACE = " IN-PLACE HISTORIES: on a fresh thread a different sampler is sampled, its memory slot is overwritten by the configuration under test, which is then sampled and judged by the same clauses (state keyed on an address is visible)."
UNITS = " KINEMATIC UNITS: every 9th configuration again with all momenta and masses scaled by 2^-30 and by 2^24."
FAMILY5 = " The family also contains: every assignment of two propagator powers (3/4, 3/2) to the edges of all graphs with up to three edges and of the box; externals listed once per leg; every 9th massive configuration with signed (negative) mass values. On the default point of every sector the other combinations of print_debug_info and matrix_stability_test = +inf are executed and judged as well."
EXTRA = {
    "C12": " SUPPLEMENTARY (sampling of schedules, not part of the exhaustive claim): four free-running OS threads draw the Gamma variate for samplers of different dod in turn, every draw judged by the binding clause.",
    "C20": " from_vec is also given Vecs of exactly D elements with spare capacity, grown by push, and truncated.",
    "C01": SIZE_LADDER + UNITS + " Routings with signature entries of magnitude 2 (unimodular shears applied once and twice) and a reversed loop at the default point of every explored sector; signed masses; weight patterns; externals listed once per leg.",
    "C02": SIZE_LADDER + INPLACE + UNITS + FAMILY5 + OFFSET,
    "C03": " Larger shapes (cycle, path, star, multi-edge, self-loops, two components, K5 walk) with 5..10 edges (thorough: 12) in six (D, mass, weight) settings incl. odd D*L and pairwise different weights are judged by the same clauses.",
    "C04": " Larger shapes (cycle, path, star, multi-edge, self-loops, two components, K5 walk) with 5..10 edges (thorough: 12) in six (D, mass, weight) settings incl. odd D*L and pairwise different weights are judged by the same clauses.",
    "C05": " Larger shapes with 5..10 edges (thorough: 12) in six (D, mass, weight) settings are classified by the same exact oracle.",
    "C06": " SIZE LADDER: polygons and bananas with 6..10 edges (thorough: 12) and numerically generic weights, the complete subset lattice of each with the same answer alphabet.",
    "C07": SIZE_LADDER + INPLACE + UNITS + FAMILY5,
    "C08": SIZE_LADDER + INPLACE + UNITS + FAMILY5,
    "C09": SIZE_LADDER + INPLACE + UNITS + FAMILY5,
    "C10": SIZE_LADDER + INPLACE + UNITS + " WIDE SCALAR: on 2..4-loop bananas the whole sampler runs in double-double arithmetic and the quadratic-form identity of the returned momenta must hold to 2^-84*cond (a detour through f64 leaves 1e-16)." + FAMILY5 + OFFSET,
    "C11": SIZE_LADDER + INPLACE + UNITS + FAMILY5,
    "C13": INPLACE + " On the default point of every sector the other combinations of print_debug_info and matrix_stability_test = +inf are executed and judged as well.",
    "C14": SIZE_LADDER + " UNDERFLOW ANSWERS: every xi coordinate also takes 1e-300, 2^-1074 and 0 (the running product of the parameters becomes exactly zero), alone and with one more deviation: the remaining coordinates must still be read in their roles. A slice of get_dimension()-1 coordinates must not be sampled successfully.",
    "C16": " POSITION ALPHABET: unit matrices of dimension 2..8 with, at every diagonal position, an indefinite 2x2 block, a semi-definite one or a 1e-310 entry (the inverse overflows) under all tolerances; bordered, balanced-pivot and graded-block families up to 8x8; the evaluation bound counts only non-zero products. The evidence reports, per family, the exact distance in units of the slack (decisive where > 1). Two relations between verdicts need no numerical oracle: a matrix that is ZeroDet without the stability test is ZeroDet with it, and the verdict with print_debug_info = return_metadata = true equals the quiet verdict. RECIPROCAL FAULTS (environment deviation): the generic routine runs on the tracking scalar with ONE inv() answer perturbed (every call position and all calls; factors 1+-2^-10, 1+2^-20) on dense / arrowhead / tridiagonal / graded SPD matrices of dimension 2..6 (thorough 8) in both row orders and on the graph L matrices; the exact distance of the returned inverse is then 1e8..1e11 times the rigorous rounding slack, and every tolerance d*k/32 (k=1..31) must be answered Unstable - this decides the stability verdict itself (triangle-only residuals, row instead of column norms, skipped tests).",
    "C17": " The in-place rebuild operation also drives the replacement sampler (different number of draws) through generate_sample_from_rng. Further operations: sampling with the other mass pattern (None <-> Some(m), signed) and generate_sample_from_rng under a stability test that always fails (exactly get_dimension() draws, the error of the x-space entry); a second sampler of the same graph with its signature rows rotated over the edges. SUPPLEMENTARY (sampling of schedules, not part of the exhaustive claim): four free-running OS threads sample three samplers of different dod in turn and compare with the single-threaded reference.",
    "C18": SIZE_LADDER + " Loop signatures multiplied by 200, -129, 70000 and -2^33 (entries beyond i8/i16/i32) are round-tripped through all three formats and sampled.",
    "C19": SIZE_LADDER + " In the double-double end-to-end run every Gaussian component is compared with an independent double-double Box-Muller transform of its pair (own ln, sqrt, sin, cos, 107-bit pi) to 2^-90. The tracked executions (narrowing census) also run under routings with signature entries +2 and -2 (shears applied twice) on the default point of every sector of configurations with two or more loops.",
}

def main():
    extra_path = os.path.join(os.path.dirname(__file__), "manifest_extra.json")
    checks = dict(CHECKS)
    if os.path.exists(extra_path):
        for k, v in json.load(open(extra_path)).items():
            checks[k] = tuple(v)
    man = {
        "version": 1,
        "setup_cmd": "./check --build",
        "hooks": {
            "guard": "cargo feature verif-hooks",
            "enable": "the harness crate mtmc depends on momtrop { path = \"/repo\", features = [\"log\", \"verif-hooks\"] }; no RUSTFLAGS. A second small crate (harness/nolog) builds momtrop with NO feature at all (guard off) and is compared bit-for-bit with the hooks-on build by the C17 check",
            "baseline_off_cmd": "cd /repo && cargo test --workspace --no-fail-fast --offline",
            "source_commits": ["5bdd1de"],
            "add_only": True,
        },
        "engines": [
            {"name": "mtmc", "path": "harness/mtmc", "serves_properties": sorted(checks.keys()),
             "kind_free_text": "Rust binary: bounded exhaustive exploration of the real momtrop code (configuration enumeration, subset-lattice walk, deviation-bounded answer sequences, histories, controlled schedules) against the oracle crate"},
            {"name": "oracle", "path": "harness/oracle", "serves_properties": sorted(checks.keys()),
             "kind_free_text": "reference model in exact rational arithmetic; no dependency on momtrop"},
        ],
        "checks": [],
        "not_applicable": [],
        "notes": "Driver: ./check <Cxx> <quick|thorough>. Exit 0 held / 1 VIOLATION / 2 machinery failure. Known findings in known_findings.json.",
    }
    for pid in ALL:
        if pid in checks:
            eng, level, tech, text, note, ref = checks[pid]
            text = text + EXTRA.get(pid, "")
            man["checks"].append({
                "property_id": pid,
                "quick_cmd": f"./check {pid} quick",
                "thorough_cmd": f"./check {pid} thorough",
                "evidence_file": f"/verif/evidence/{pid}.json",
                "replay_cmd_template": f"./check {pid} --replay {{path}}",
                "engine": eng,
                "level_claimed": {"category": level, "text": text, "design_ref": ref},
                "level_note": note,
                "technique": tech,
            })
        else:
            man["not_applicable"].append({"property_id": pid, "reason": NOT_BUILT_REASON})
    out = os.path.join(os.path.dirname(__file__), "..", "MANIFEST.json")
    json.dump(man, open(out, "w"), indent=1)
    print("claimed:", sorted(checks.keys()))

if __name__ == "__main__":
    main()
