//! Runs a corpus of (graph, signature, edge data, settings, points) through momtrop built WITHOUT any cargo feature and
//! writes the bit patterns of every result. The mtmc harness (built with `log` + `verif-hooks`) computes the same corpus and
//! compares: results must not depend on the feature set of the build.
//! usage: nolog <corpus.json> <out.json>
use momtrop::vector::Vector;
use momtrop::{Edge, Graph, SampleGenerator, TropicalSampleResult, TropicalSamplingSettings};
use serde_json::{json, Value};
use std::panic::{catch_unwind, AssertUnwindSafe};

fn f(v: &Value) -> f64 {
    f64::from_bits(u64::from_str_radix(v.as_str().unwrap(), 16).unwrap())
}

fn bits<const D: usize>(r: &TropicalSampleResult<f64, D>) -> Vec<String> {
    let mut out: Vec<u64> = vec![];
    for k in &r.loop_momenta {
        for c in k.get_elements() {
            out.push(c.to_bits());
        }
    }
    for x in [r.u_trop, r.v_trop, r.u, r.v, r.jacobian] {
        out.push(x.to_bits());
    }
    if let Some(m) = &r.metadata {
        for q in &m.q_vectors {
            for c in q.get_elements() {
                out.push(c.to_bits());
            }
        }
        out.push(m.lambda.to_bits());
        let n = m.l_matrix.get_dim();
        for i in 0..n {
            for j in 0..n {
                out.push(m.l_matrix[(i, j)].to_bits());
            }
        }
        out.push(m.decompoisiton_result.determinant.to_bits());
        for mat in [&m.decompoisiton_result.inverse, &m.decompoisiton_result.q_transposed, &m.decompoisiton_result.q_transposed_inverse] {
            for i in 0..n {
                for j in 0..n {
                    out.push(mat[(i, j)].to_bits());
                }
            }
        }
        for v in m.u_vectors.iter().chain(m.shift.iter()) {
            for c in v.get_elements() {
                out.push(c.to_bits());
            }
        }
    }
    out.iter().map(|b| format!("{b:016x}")).collect()
}

fn run<const D: usize>(entry: &Value) -> Value {
    let edges: Vec<Edge> = entry["edges"]
        .as_array()
        .unwrap()
        .iter()
        .map(|e| Edge {
            vertices: (e["v"][0].as_u64().unwrap() as u8, e["v"][1].as_u64().unwrap() as u8),
            is_massive: e["massive"].as_bool().unwrap(),
            weight: f(&e["weight"]),
        })
        .collect();
    let externals: Vec<u8> = entry["externals"].as_array().unwrap().iter().map(|x| x.as_u64().unwrap() as u8).collect();
    let sig: Vec<Vec<isize>> = entry["sig"].as_array().unwrap().iter().map(|r| r.as_array().unwrap().iter().map(|x| x.as_i64().unwrap() as isize).collect()).collect();
    let built = catch_unwind(AssertUnwindSafe(|| Graph { edges, externals }.build_sampler::<D>(sig)));
    let sampler: SampleGenerator<D> = match built {
        Ok(Ok(s)) => s,
        Ok(Err(e)) => return json!({"build": format!("Err:{e}")}),
        Err(_) => return json!({"build": "Panic"}),
    };
    let ed: Vec<(Option<f64>, Vector<f64, D>)> = entry["edge_data"]
        .as_array()
        .unwrap()
        .iter()
        .map(|e| {
            let m = if e["mass"].is_null() { None } else { Some(f(&e["mass"])) };
            let s: Vec<f64> = e["shift"].as_array().unwrap().iter().map(f).collect();
            (m, Vector::from_vec(s))
        })
        .collect();
    let mut results = vec![];
    for st in entry["settings"].as_array().unwrap() {
        let settings = TropicalSamplingSettings {
            matrix_stability_test: if st["stability"].is_null() { None } else { Some(f(&st["stability"])) },
            print_debug_info: st["debug"].as_bool().unwrap(),
            return_metadata: st["metadata"].as_bool().unwrap(),
        };
        for p in entry["points"].as_array().unwrap() {
            let x: Vec<f64> = p.as_array().unwrap().iter().map(f).collect();
            let r = catch_unwind(AssertUnwindSafe(|| sampler.generate_sample_from_x_space_point(&x, ed.clone(), &settings)));
            results.push(match r {
                Ok(Ok(s)) => json!({"ok": bits(&s)}),
                Ok(Err(e)) => json!({"err": format!("{e:?}")}),
                Err(_) => json!({"panic": true}),
            });
        }
    }
    // log-free observation of the (rescaled) Feynman parameters: with a unit shift on edge e only, u_l = x_e S_el e_1
    let mut recovered = vec![];
    if entry["recover"].as_bool().unwrap_or(false) {
        let sig: Vec<Vec<i64>> = entry["sig"].as_array().unwrap().iter().map(|r| r.as_array().unwrap().iter().map(|x| x.as_i64().unwrap()).collect()).collect();
        let ne = sig.len();
        for st in entry["settings"].as_array().unwrap() {
            let settings = TropicalSamplingSettings {
                matrix_stability_test: None,
                print_debug_info: st["debug"].as_bool().unwrap(),
                return_metadata: true,
            };
            for p in entry["points"].as_array().unwrap() {
                let x: Vec<f64> = p.as_array().unwrap().iter().map(f).collect();
                let mut xs: Vec<Value> = vec![];
                for e in 0..ne {
                    let l = match sig[e].iter().position(|s| *s != 0) {
                        Some(l) => l,
                        None => {
                            xs.push(Value::Null);
                            continue;
                        }
                    };
                    let ed1: Vec<(Option<f64>, Vector<f64, D>)> = (0..ne)
                        .map(|k| {
                            let mut v = vec![0.0; D];
                            if k == e {
                                v[0] = 1.0;
                            }
                            (ed[k].0, Vector::from_vec(v))
                        })
                        .collect();
                    let r = catch_unwind(AssertUnwindSafe(|| sampler.generate_sample_from_x_space_point(&x, ed1, &settings)));
                    match r {
                        Ok(Ok(s)) => match &s.metadata {
                            Some(m) => {
                                let u = m.u_vectors[l].get_elements()[0];
                                xs.push(json!(format!("{:016x}", (u / sig[e][l] as f64).to_bits())));
                            }
                            None => xs.push(Value::Null),
                        },
                        _ => xs.push(Value::Null),
                    }
                }
                recovered.push(Value::Array(xs));
            }
        }
    }
    json!({"build": "Ok", "dimension": sampler.get_dimension(), "dod": format!("{:016x}", sampler.get_dod().to_bits()), "results": results, "recovered": recovered})
}

fn main() {
    let args: Vec<String> = std::env::args().collect();
    let corpus: Value = serde_json::from_str(&std::fs::read_to_string(&args[1]).expect("corpus")).expect("json");
    // debug output of the no-log build goes to stdout: silence it
    unsafe {
        let null = libc::open(b"/dev/null\0".as_ptr() as *const libc::c_char, libc::O_WRONLY);
        if null >= 0 {
            libc::dup2(null, 1);
        }
    }
    std::panic::set_hook(Box::new(|_| {}));
    let mut out = vec![];
    for entry in corpus.as_array().unwrap() {
        let d = entry["dim"].as_u64().unwrap();
        out.push(match d {
            1 => run::<1>(entry),
            2 => run::<2>(entry),
            3 => run::<3>(entry),
            4 => run::<4>(entry),
            5 => run::<5>(entry),
            6 => run::<6>(entry),
            _ => json!({"build": "unsupported dimension"}),
        });
    }
    std::fs::write(&args[2], serde_json::to_string(&out).unwrap()).expect("write");
}
