//! Shared machinery: CLI context, reporting (evidence / replay / known findings), parallel driver.
use serde_json::{json, Map, Value};
use std::collections::BTreeMap;
use std::io::Write;
use std::sync::atomic::{AtomicUsize, Ordering};
use std::sync::Mutex;
use std::time::Instant;

#[derive(Clone, Copy, PartialEq, Eq, Debug)]
pub enum Tier {
    Quick,
    Thorough,
}

impl Tier {
    pub fn name(&self) -> &'static str {
        match self {
            Tier::Quick => "quick",
            Tier::Thorough => "thorough",
        }
    }
    pub fn pick<T>(&self, q: T, t: T) -> T {
        match self {
            Tier::Quick => q,
            Tier::Thorough => t,
        }
    }
}

/// root of the verification tree: $VERIF_ROOT (set by ./check to its own directory), default /verif
pub fn verif_dir() -> String {
    std::env::var("VERIF_ROOT").unwrap_or_else(|_| "/verif".to_string())
}

#[derive(Clone, Debug)]
pub struct Violation {
    /// canonical key: call site / mechanism / witness – what known_findings.json matches on
    pub key: String,
    /// clause of the property that failed
    pub clause: String,
    pub what: String,
    /// self-contained replay case
    pub replay: Value,
}

/// Per-worker accumulator, merged deterministically.
#[derive(Default, Clone)]
pub struct Acc {
    pub counters: BTreeMap<String, u64>,
    pub maxima: BTreeMap<String, f64>,
    pub samples: Vec<Value>,
    pub violations: Vec<Violation>,
    pub hist: BTreeMap<String, BTreeMap<String, u64>>,
    pub cat_counts: BTreeMap<String, u64>,
}

impl Acc {
    pub fn new() -> Self {
        Self::default()
    }
    pub fn inc(&mut self, k: &str) {
        *self.counters.entry(k.to_string()).or_insert(0) += 1;
    }
    pub fn add(&mut self, k: &str, n: u64) {
        *self.counters.entry(k.to_string()).or_insert(0) += n;
    }
    pub fn get(&self, k: &str) -> u64 {
        self.counters.get(k).copied().unwrap_or(0)
    }
    pub fn max(&mut self, k: &str, v: f64) {
        let e = self.maxima.entry(k.to_string()).or_insert(f64::NEG_INFINITY);
        if v > *e || v.is_nan() {
            *e = v;
        }
    }
    pub fn hist(&mut self, h: &str, bucket: &str) {
        *self
            .hist
            .entry(h.to_string())
            .or_default()
            .entry(bucket.to_string())
            .or_insert(0) += 1;
    }
    pub fn sample(&mut self, v: Value) {
        if self.samples.len() < 3 {
            self.samples.push(v);
        }
    }
    pub fn violate(&mut self, key: String, clause: &str, what: String, replay: Value) {
        self.inc("violations_raw");
        // keep memory bounded: at most 300 stored per category (first two key components) per accumulator
        let cat: String = key.split('/').take(2).collect::<Vec<_>>().join("/");
        let c = self.cat_counts.entry(cat).or_insert(0);
        *c += 1;
        if *c <= 300 {
            self.violations.push(Violation {
                key,
                clause: clause.to_string(),
                what,
                replay,
            });
        }
    }
    /// JSON form for worker processes
    pub fn to_json(&self) -> Value {
        json!({
            "counters": self.counters,
            "maxima": self.maxima.iter().filter(|(_, v)| v.is_finite()).map(|(k, v)| (k.clone(), json!(v))).collect::<Map<String, Value>>(),
            "hist": self.hist,
            "samples": self.samples,
            "violations": self.violations.iter().map(|v| json!({"key": v.key, "clause": v.clause, "what": v.what, "replay": v.replay})).collect::<Vec<_>>(),
        })
    }
    pub fn from_json(v: &Value) -> Acc {
        let mut a = Acc::new();
        if let Some(m) = v["counters"].as_object() {
            for (k, x) in m {
                a.counters.insert(k.clone(), x.as_u64().unwrap_or(0));
            }
        }
        if let Some(m) = v["maxima"].as_object() {
            for (k, x) in m {
                a.maxima.insert(k.clone(), x.as_f64().unwrap_or(f64::NAN));
            }
        }
        if let Some(m) = v["hist"].as_object() {
            for (h, b) in m {
                for (k, x) in b.as_object().cloned().unwrap_or_default() {
                    a.hist.entry(h.clone()).or_default().insert(k, x.as_u64().unwrap_or(0));
                }
            }
        }
        a.samples = v["samples"].as_array().cloned().unwrap_or_default();
        for x in v["violations"].as_array().cloned().unwrap_or_default() {
            a.violations.push(Violation {
                key: x["key"].as_str().unwrap_or("").to_string(),
                clause: x["clause"].as_str().unwrap_or("").to_string(),
                what: x["what"].as_str().unwrap_or("").to_string(),
                replay: x["replay"].clone(),
            });
        }
        a
    }
    pub fn merge(&mut self, o: Acc) {
        for (k, v) in o.counters {
            *self.counters.entry(k).or_insert(0) += v;
        }
        for (k, v) in o.maxima {
            let e = self.maxima.entry(k).or_insert(f64::NEG_INFINITY);
            if v > *e || v.is_nan() {
                *e = v;
            }
        }
        for (h, m) in o.hist {
            let e = self.hist.entry(h).or_default();
            for (k, v) in m {
                *e.entry(k).or_insert(0) += v;
            }
        }
        for s in o.samples {
            if self.samples.len() < 3 {
                self.samples.push(s);
            }
        }
        self.violations.extend(o.violations);
    }
}

/// Run `f(item_index, &mut Acc)` for all items on `threads` workers; merge in worker order (results do not depend on partition
/// except for which 3 samples are kept; violations are sorted afterwards).
pub fn par_for<F>(n_items: usize, f: F) -> Acc
where
    F: Fn(usize, &mut Acc) + Sync,
{
    let threads = std::thread::available_parallelism()
        .map(|n| n.get())
        .unwrap_or(4)
        .min(16)
        .min(n_items.max(1));
    let next = AtomicUsize::new(0);
    let results: Mutex<Vec<(usize, Acc)>> = Mutex::new(vec![]);
    let deadline = deadline();
    std::thread::scope(|s| {
        for w in 0..threads {
            let next = &next;
            let results = &results;
            let f = &f;
            s.spawn(move || {
                let mut acc = Acc::new();
                loop {
                    let i = next.fetch_add(1, Ordering::SeqCst);
                    if i >= n_items {
                        break;
                    }
                    if Instant::now() > deadline {
                        acc.inc("items_skipped_by_time_cap");
                        continue;
                    }
                    f(i, &mut acc);
                }
                results.lock().unwrap().push((w, acc));
            });
        }
    });
    let mut rs = results.into_inner().unwrap();
    rs.sort_by_key(|r| r.0);
    let mut total = Acc::new();
    for (_, a) in rs {
        total.merge(a);
    }
    total
        .violations
        .sort_by(|a, b| (a.key.as_str(), a.what.as_str()).cmp(&(b.key.as_str(), b.what.as_str())));
    total
}

static START: Mutex<Option<(Instant, f64)>> = Mutex::new(None);

pub fn set_time_cap(secs: f64) {
    *START.lock().unwrap() = Some((Instant::now(), secs));
}
fn deadline() -> Instant {
    let g = START.lock().unwrap();
    match *g {
        Some((t, s)) => t + std::time::Duration::from_secs_f64(s),
        None => Instant::now() + std::time::Duration::from_secs(86400),
    }
}
/// true once the engine's wall-clock cap is exceeded (checked inside long loops)
pub fn time_up() -> bool {
    Instant::now() > deadline()
}
pub fn elapsed() -> f64 {
    let g = START.lock().unwrap();
    g.map(|(t, _)| t.elapsed().as_secs_f64()).unwrap_or(0.0)
}

/// Original stdout (fd 1 is redirected to /dev/null because momtrop println!s in debug mode).
static OUT_FD: AtomicUsize = AtomicUsize::new(1);

pub fn silence_stdout() {
    unsafe {
        let saved = libc::dup(1);
        let null = libc::open(b"/dev/null\0".as_ptr() as *const libc::c_char, libc::O_WRONLY);
        if saved >= 0 && null >= 0 {
            libc::dup2(null, 1);
            libc::close(null);
            OUT_FD.store(saved as usize, Ordering::SeqCst);
        }
    }
}

pub fn out_line(s: &str) {
    let fd = OUT_FD.load(Ordering::SeqCst) as i32;
    let line = format!("{s}\n");
    unsafe {
        libc::write(fd, line.as_ptr() as *const libc::c_void, line.len());
    }
}

pub fn install_silent_panic_hook() {
    std::panic::set_hook(Box::new(|_| {}));
}

pub fn panic_message(e: Box<dyn std::any::Any + Send>) -> String {
    if let Some(s) = e.downcast_ref::<&str>() {
        s.to_string()
    } else if let Some(s) = e.downcast_ref::<String>() {
        s.clone()
    } else {
        "<non-string panic>".to_string()
    }
}

pub struct Ctx {
    pub prop: String,
    pub tier: Tier,
    pub seed: i64,
}

#[derive(Clone, Debug)]
pub struct Known {
    pub status: String,
    pub property: String,
    pub key: String,
    pub what: String,
}

pub fn load_known() -> Vec<Known> {
    let p = format!("{}/known_findings.json", verif_dir());
    let txt = match std::fs::read_to_string(&p) {
        Ok(t) => t,
        Err(_) => return vec![],
    };
    let v: Value = serde_json::from_str(&txt).expect("known_findings.json must parse");
    let mut res = vec![];
    for e in v["findings"].as_array().cloned().unwrap_or_default() {
        res.push(Known {
            status: e["status"].as_str().unwrap_or("").to_string(),
            property: e["property"].as_str().unwrap_or("").to_string(),
            key: e["key"].as_str().unwrap_or("").to_string(),
            what: e["what"].as_str().unwrap_or("").to_string(),
        });
    }
    res
}

pub fn fnv(s: &str) -> u64 {
    let mut h: u64 = 0xcbf29ce484222325;
    for b in s.bytes() {
        h ^= b as u64;
        h = h.wrapping_mul(0x100000001b3);
    }
    h
}

pub struct Finish {
    pub level: &'static str,
    pub rule: String,
    pub states: u64,
    pub transitions: u64,
    pub traces: u64,
    pub evaluations: u64,
    pub distinct_nontrivial: u64,
    pub exhaustive: bool,
    pub bounds: Value,
    pub assumptions: Vec<String>,
    pub extra: Map<String, Value>,
}

/// Write evidence + replay files, print VIOLATION / KNOWN-FINDING lines, return the exit code.
pub fn finish(ctx: &Ctx, acc: &Acc, fin: Finish) -> i32 {
    let known = load_known();
    let mut new_violations: Vec<&Violation> = vec![];
    let mut known_hits: BTreeMap<String, &Known> = BTreeMap::new();
    for v in &acc.violations {
        match known
            .iter()
            .find(|k| k.status == "open" && k.property == ctx.prop && k.key == v.key)
        {
            Some(k) => {
                known_hits.insert(k.key.clone(), k);
            }
            None => new_violations.push(v),
        }
    }
    // one replay file per distinct key (first witness in deterministic order), at most 25 lines printed
    let _ = std::fs::create_dir_all(format!("{}/replays", verif_dir()));
    let mut printed: Vec<String> = vec![];
    let mut seen_keys: Vec<&str> = vec![];
    let mut per_cat: BTreeMap<String, usize> = BTreeMap::new();
    for v in &new_violations {
        if seen_keys.contains(&v.key.as_str()) {
            continue;
        }
        seen_keys.push(&v.key);
        // at most 4 replay files per category (= first two components of the key), 48 in total
        let cat: String = v.key.split('/').take(2).collect::<Vec<_>>().join("/");
        let c = per_cat.entry(cat).or_insert(0);
        *c += 1;
        if *c > 4 || printed.len() >= 48 {
            continue;
        }
        let path = format!("{}/replays/{}-{:016x}.json", verif_dir(), ctx.prop, fnv(&v.key));
        let body = json!({
            "property": ctx.prop, "key": v.key, "clause": v.clause, "what": v.what, "case": v.replay,
        });
        let _ = std::fs::write(&path, serde_json::to_string_pretty(&body).unwrap());
        printed.push(format!("VIOLATION property={} replay={}", ctx.prop, path));
        eprintln!("[{}] VIOLATION clause={} key={} :: {}", ctx.prop, v.clause, v.key, v.what);
    }
    if !per_cat.is_empty() {
        eprintln!("[{}] distinct violation keys per category: {:?}", ctx.prop, per_cat);
    }
    for (_, k) in &known_hits {
        out_line(&format!("KNOWN-FINDING: property={} {}", ctx.prop, k.what));
    }
    for l in &printed {
        out_line(l);
    }
    let capped = acc.get("items_skipped_by_time_cap");
    let mut coverage = Map::new();
    coverage.insert("states".into(), json!(fin.states));
    coverage.insert("transitions".into(), json!(fin.transitions));
    coverage.insert("traces_validated_against_impl".into(), json!(fin.traces));
    coverage.insert("evaluations".into(), json!(fin.evaluations));
    coverage.insert("distinct_nontrivial".into(), json!(fin.distinct_nontrivial));
    coverage.insert("rule".into(), json!(fin.rule));
    coverage.insert(
        "samples".into(),
        if acc.samples.is_empty() {
            json!([{"note": "no sample recorded"}])
        } else {
            json!(acc.samples)
        },
    );
    coverage.insert("exhaustive".into(), json!(fin.exhaustive && capped == 0));
    coverage.insert("bounds".into(), fin.bounds);
    coverage.insert("counters".into(), json!(acc.counters));
    coverage.insert(
        "maxima".into(),
        json!(acc
            .maxima
            .iter()
            .map(|(k, v)| (k.clone(), if v.is_finite() { json!(v) } else { json!(format!("{v}")) }))
            .collect::<Map<String, Value>>()),
    );
    coverage.insert("histograms".into(), json!(acc.hist));
    coverage.insert("time_cap_skipped_items".into(), json!(capped));
    if acc.get("cases_with_strided_sectors") > 0 {
        coverage.insert(
            "exhaustive_scope".into(),
            json!(format!(
                "complete enumeration of: every configuration of the stated family x every sector kept by the per-configuration execution budget (evenly strided, deterministic; {} of {} configurations had sectors strided) x every answer sequence within the deviation bound; nothing is sampled at random",
                acc.get("cases_with_strided_sectors"),
                acc.get("cases")
            )),
        );
    }
    coverage.insert("distinct_violation_keys".into(), json!(seen_keys.len()));
    coverage.insert("known_findings_reobserved".into(), json!(known_hits.len()));
    for (k, v) in fin.extra {
        coverage.insert(k, v);
    }
    let ev = json!({
        "property_id": ctx.prop,
        "tier": ctx.tier.name(),
        "seed": ctx.seed,
        "level": fin.level,
        "coverage": coverage,
        "assumptions": fin.assumptions,
        "wall_s": elapsed(),
        "violations": seen_keys.len(),
    });
    let _ = std::fs::create_dir_all(format!("{}/evidence", verif_dir()));
    let path = format!("{}/evidence/{}.json", verif_dir(), ctx.prop);
    let mut f = std::fs::File::create(&path).expect("evidence file");
    f.write_all(serde_json::to_string_pretty(&ev).unwrap().as_bytes())
        .unwrap();
    eprintln!(
        "[{}] tier={} evaluations={} states={} transitions={} traces={} nontrivial={} violations={} known={} wall={:.1}s",
        ctx.prop,
        ctx.tier.name(),
        fin.evaluations,
        fin.states,
        fin.transitions,
        fin.traces,
        fin.distinct_nontrivial,
        seen_keys.len(),
        known_hits.len(),
        elapsed()
    );
    if capped > 0 {
        // a capped run is NOT the exhaustive exploration the bounds describe: the evidence says so (exhaustive = false,
        // time_cap_skipped_items) and this line repeats it; it is not a verdict about the code, so the exit code stays that
        // of what WAS explored (0 when nothing was violated there)
        eprintln!("[{}] TIME CAP HIT: {} work items skipped – coverage is incomplete (evidence: exhaustive=false)", ctx.prop, capped);
    }
    if seen_keys.is_empty() {
        if fin.distinct_nontrivial == 0 {
            // a silent run that judged nothing is vacuous (e.g. an observation window such as the log keys disappeared)
            eprintln!("[{}] MACHINERY: no non-trivial case was judged – the check is vacuous on this tree (exit 2)", ctx.prop);
            return 2;
        }
        0
    } else {
        1
    }
}

pub fn bits(x: f64) -> String {
    format!("{:016x}", x.to_bits())
}

/// f64 <-> JSON preserving every bit (hex of the bit pattern plus a readable rendering)
pub fn jf(x: f64) -> Value {
    json!({"bits": bits(x), "approx": format!("{x:e}")})
}
pub fn jf_vec(x: &[f64]) -> Value {
    Value::Array(x.iter().map(|v| jf(*v)).collect())
}
pub fn unjf(v: &Value) -> f64 {
    let b = v["bits"].as_str().expect("bits");
    f64::from_bits(u64::from_str_radix(b, 16).expect("hex"))
}
pub fn unjf_vec(v: &Value) -> Vec<f64> {
    v.as_array().expect("array").iter().map(unjf).collect()
}
