//! C14 (coordinate consumption / non-interference / influence / per-execution data flow) and
//! C19 (narrowing census with the tracking scalar; double-double through the matrix kernel).
use crate::common::*;
use crate::kernel::{graph_l_matrices, structured_families};
use crate::obs::*;
use crate::sampler::*;
use crate::scalar::*;
use crate::sprops::fam_for;
use momtrop::matrix::SquareMatrix;
use momtrop::TropicalSamplingSettings;
use oracle::linalg::QMat;
use oracle::num::*;
use oracle::refsampler;
use oracle::symanzik::{l_matrix, u_poly, v_first_term};
use serde_json::{json, Value};
use std::collections::HashMap;

const KIN_BIT: u128 = 1u128 << 127;

fn tr_inputs(x: &[f64], ed: &EdgeData<f64>) -> (Vec<Tr>, EdgeData<Tr>) {
    let xs: Vec<Tr> = x.iter().enumerate().map(|(i, &v)| Tr::new(v, 1u128 << i)).collect();
    let e: EdgeData<Tr> = ed
        .iter()
        .map(|(m, p)| (m.map(|m| Tr::new(m, KIN_BIT)), p.iter().map(|&c| Tr::new(c, KIN_BIT)).collect()))
        .collect();
    (xs, e)
}

fn mask_range(a: usize, b: usize) -> u128 {
    let mut m = 0u128;
    for i in a..b {
        m |= 1u128 << i;
    }
    m
}

fn vkey(prop: &str, clause: &str, case: &Case, x: &[f64]) -> String {
    let s: String = x.iter().map(|v| bits(*v)).collect::<Vec<_>>().join("");
    format!("{prop}/{}/{:016x}/{:016x}", clause.replace('/', "|"), fnv(&graph_json(&case.g).to_string()), fnv(&s))
}

/// outputs owned by the Feynman-parameter group
fn f_group_bits(s: &SampleOut<f64>) -> Vec<u64> {
    let mut v = vec![s.u.to_bits(), s.v.to_bits(), s.jacobian.to_bits(), s.u_trop.to_bits(), s.v_trop.to_bits()];
    if let Some(m) = &s.meta {
        v.extend(m.l_matrix.iter().map(|x| x.to_bits()));
        v.push(m.decomp.determinant.to_bits());
        v.extend(m.decomp.inverse.iter().map(|x| x.to_bits()));
        v.extend(m.decomp.q_transposed.iter().map(|x| x.to_bits()));
        v.extend(m.decomp.q_transposed_inverse.iter().map(|x| x.to_bits()));
        v.extend(m.u_vectors.iter().flatten().map(|x| x.to_bits()));
        v.extend(m.shift.iter().flatten().map(|x| x.to_bits()));
    }
    v
}

pub struct Groups {
    pub nf: usize,      // first 2E-2 coordinates
    pub p: usize,       // index of the lambda coordinate
    pub tail: usize,    // first Box-Muller coordinate
    pub dim: usize,     // get_dimension
    pub dl: usize,
}

pub fn groups(case: &Case) -> Groups {
    let ne = case.g.ne();
    let nf = 2 * ne - 2;
    let dl = case.g.dim * case.nl;
    Groups {
        nf,
        p: nf,
        tail: nf + 1,
        dim: nf + 1 + dl + dl % 2,
        dl,
    }
}

/// per-execution data-flow judgement with the tracking scalar (C14 mechanism 4 and C19a)
fn dataflow_point(case: &Case, r: &Routed, x: &[f64], st: &Settings, judge14: bool, judge19: bool, census: &mut HashMap<(Vec<usize>, bool), Vec<u64>>, lambda_bits: Option<u64>, acc: &mut Acc) {
    let gr = groups(case);
    let (xs, ed) = tr_inputs(x, &r.ed);
    probe_reset();
    let out = r.sampler.sample_with(&xs, &ed, st, &NullLogger);
    let probe = probe_take();
    acc.inc("tracked_executions");
    acc.add("scalar_ops", probe.ops);
    let rr = refsampler::run(&case.rt, x);
    let fmask = mask_range(0, gr.nf);
    // --- C19a: narrowing census (debug output off)
    if judge19 && !st.debug {
        let lam_ran = matches!(out, Outcome::Ok(_)) || matches!(&out, Outcome::Err(e) if e == "GammaError");
        for (vb, deps) in &probe.to_f64 {
            let is_const = *deps == 0;
            let is_p = *deps == (1u128 << gr.p) && *vb == x[gr.p].to_bits();
            if !(is_const || is_p) {
                acc.violate(
                    vkey("C19", "narrowing-of-user-data", case, x),
                    "only the Gamma draw narrows to f64",
                    format!("to_f64 was called on a value depending on inputs {:#x} (value {:e}); only the designated coordinate {} may be narrowed", deps, f64::from_bits(*vb), gr.p),
                    point_case(case, &r.kin, x, st, json!({"prop": "C19"})),
                );
                break;
            }
        }
        let p_calls = probe.to_f64.iter().filter(|(_, d)| *d == (1u128 << gr.p)).count();
        if lam_ran && p_calls != 1 {
            acc.violate(
                vkey("C19", "gamma-draw-narrowing-count", case, x),
                "the designated coordinate is narrowed exactly once",
                format!("coordinate {} was narrowed {p_calls} times", gr.p),
                point_case(case, &r.kin, x, st, json!({"prop": "C19"})),
            );
        }
        acc.add("to_f64_calls", probe.to_f64.len() as u64);
        // from_f64 arguments, Gamma result excepted, are a function of (configuration, sector, settings) only
        if let (Some(rr), Outcome::Ok(_), Some(lb)) = (&rr, &out, lambda_bits) {
            if rr.margin >= 1e-9 {
                let mut args = probe.from_f64.clone();
                // the Gamma result (known from the f64 run with metadata) is the one admitted data-dependent entry
                if let Some(pos) = args.iter().position(|b| *b == lb) {
                    args.remove(pos);
                }
                args.sort();
                let ck = (rr.order.clone(), st.metadata);
                match census.get(&ck) {
                    None => {
                        census.insert(ck, args);
                    }
                    Some(prev) => {
                        acc.inc("from_f64_census_comparisons");
                        if *prev != args {
                            acc.violate(
                                vkey("C19", "from_f64-carries-user-data", case, x),
                                "values entering through from_f64 are table constants only",
                                format!("the multiset of from_f64 arguments differs between two points of sector {:?}", rr.order),
                                point_case(case, &r.kin, x, st, json!({"prop": "C19"})),
                            );
                        }
                    }
                }
            }
        }
    }
    if !judge14 {
        return;
    }
    // --- C14 mechanism 4
    let s = match &out {
        Outcome::Ok(s) => s,
        _ => return,
    };
    acc.inc("dataflow_judged");
    let xi_mask: u128 = {
        // ξ coordinates are the odd positions of the F group
        let mut m = 0u128;
        for i in (1..gr.nf).step_by(2) {
            m |= 1u128 << i;
        }
        m
    };
    let mut bad = |clause: &str, what: String| {
        acc.violate(vkey("C14", clause, case, x), clause, what, point_case(case, &r.kin, x, st, json!({"prop": "C14"})));
    };
    if s.u.deps & !xi_mask != 0 {
        bad("deps(u) within xi coordinates", format!("u depends on inputs {:#x} outside the xi coordinates {:#x}", s.u.deps, xi_mask));
    }
    if s.jacobian.deps & !(fmask | KIN_BIT) != 0 {
        bad("deps(jacobian) within first 2E-2 coordinates", format!("jacobian depends on {:#x}", s.jacobian.deps));
    }
    if s.v.deps & !(fmask | KIN_BIT) != 0 {
        bad("deps(v) within first 2E-2 coordinates", format!("v depends on {:#x}", s.v.deps));
    }
    if let Some(m) = &s.meta {
        let d = case.g.dim;
        for l in 0..case.nl {
            for c in 0..d {
                let idx = l * d + c;
                let pair = gr.tail + 2 * (idx / 2);
                let want = (1u128 << pair) | (1u128 << (pair + 1));
                let got = m.q_vectors[l][c].deps;
                if got != want {
                    bad("deps(q_j) = its own pair", format!("Gaussian component {idx} depends on {got:#x}, expected exactly {want:#x}"));
                }
            }
        }
        if m.lambda.deps != 0 {
            bad("lambda crosses the f64 boundary", format!("lambda carries dependence {:#x}", m.lambda.deps));
        }
    }
    // loop momenta depend on every ξ and every used Gaussian coordinate
    let mut kdeps = 0u128;
    for k in &s.loop_momenta {
        for c in k {
            kdeps |= c.deps;
        }
    }
    let used_tail = mask_range(gr.tail, gr.tail + gr.dl + gr.dl % 2);
    let want = xi_mask | used_tail;
    if kdeps & want != want {
        bad("every coordinate influences the momenta", format!("loop momenta depend on {:#x}, missing {:#x}", kdeps, want & !kdeps));
    }
    // comparisons on tainted data: selection compares (one u coordinate against constants) and determinant / stability compares (⊆ F)
    for (a, b) in &probe.compares {
        let u = a | b;
        let single_u = u.count_ones() == 1 && (u.trailing_zeros() as usize) < gr.nf && (u.trailing_zeros() as usize) % 2 == 0;
        let in_f = u & !fmask == 0;
        if !(single_u || in_f) {
            bad("comparisons only on selection answers or F-group data", format!("a comparison involved inputs {:#x}", u));
            break;
        }
    }
}

pub fn run(ctx: &Ctx) -> i32 {
    let tier = ctx.tier;
    let is14 = ctx.prop == "C14";
    let mut cases = fam_for(tier, &ctx.prop);
    cases.extend(dl_grid_cases().into_iter().filter(|c| c.g.loop_number(c.g.full()) <= 3));
    // size ladder: beyond 6 loops (L matrix leaves its inline storage), 8 edges, 64 signature entries
    let n_regular = cases.len();
    cases.extend(large_cases(tier));
    let roles_all = Roles { u: true, xi: true, p: true, ab: true, xi_moderate: true, xi_ladder: false };
    let mut lpt: Vec<usize> = (0..cases.len()).collect();
    lpt.sort_by_key(|&i| {
        let g = &cases[i].g;
        let l = g.loop_number(g.full());
        std::cmp::Reverse((l * l * g.ne() * g.ne(), i))
    });
    let mut acc = par_for(cases.len(), |item, acc| {
        let i = lpt[item];
        let case = match Case::new(&cases[i]) {
            Some(c) => c,
            None => return,
        };
        let r = match route_via(&case, &case.base_kin()) {
            Ok(r) => r,
            Err(_) => return,
        };
        acc.inc("cases");
        acc.hist("construction_path", r.via);
        let gr = groups(&case);
        let ne = case.g.ne();
        // hypercube dimension agrees with the role layout
        match r.sampler.get_dimension() {
            Ok(d) if d == gr.dim => {}
            other => {
                acc.violate(
                    format!("{}/get_dimension/{:016x}", ctx.prop, fnv(&graph_json(&case.g).to_string())),
                    "reads exactly get_dimension() coordinates",
                    format!("get_dimension() = {other:?}, role layout needs {}", gr.dim),
                    json!({"engine": "table", "graph": graph_json(&case.g), "extra": {}}),
                );
                return;
            }
        }
        // C19: routings with signature entries of magnitude 2 (unimodular shears applied twice): products of signature
        // entries other than 0 and +-1 reach code paths of the L matrix that the default cycle bases never execute
        let mut sheared: Vec<Routed> = vec![];
        if !is14 && case.nl >= 2 {
            let n = case.nl;
            let id: Vec<Vec<i64>> = (0..n).map(|a| (0..n).map(|b| (a == b) as i64).collect()).collect();
            let mut s1 = id.clone();
            s1[0][1] = 1;
            let mut s2 = id.clone();
            s2[1][0] = -1;
            let bk = case.base_kin();
            for m in [oracle::kin::mat_mul_i(&s1, &s1), oracle::kin::mat_mul_i(&s2, &s2)] {
                if let Ok(rs) = route_via(&case, &bk.change_basis(&m)) {
                    sheared.push(rs);
                }
            }
        }
        let sectors = if i >= n_regular { sector_subset(ne, false) } else { all_sectors(ne) };
        if i >= n_regular {
            acc.inc("large_cases");
            acc.hist("large_case_shape", &format!("{}-E{}L{}D{}", case.spec.label, ne, case.nl, case.g.dim));
        }
        let max_sectors = tier.pick(6, 12);
        let sstride = (sectors.len() + max_sectors - 1) / max_sectors;
        let st_meta = Settings::META;
        for (si, order) in sectors.iter().enumerate() {
            if si % sstride != 0 {
                continue;
            }
            if time_up() {
                acc.inc("items_skipped_by_time_cap");
                return;
            }
            acc.inc("sectors");
            let k = if ne <= 3 { 2 } else { 1 };
            let mut pts = sector_points(&case, order, tier.pick(k, 2), &roles_all);
            if is14 {
                // underflow answers: a xi so small that the running product of the parameters becomes exactly zero (or xi = 0):
                // the remaining coordinates must still be read, each in its own role; alone and combined with one more deviation
                let base0 = pts[0].0.clone();
                for i in (1..gr.nf).step_by(2) {
                    for v in [1e-300, 5e-324, 0.0] {
                        let mut x = base0.clone();
                        x[i] = v;
                        pts.push((x.clone(), 1));
                        if ne <= 4 {
                            for j in 0..gr.dim {
                                if j == i {
                                    continue;
                                }
                                let mut y = x.clone();
                                y[j] = if (base0[j] - 0.25).abs() < 1e-3 { 0.75 } else { 0.25 };
                                pts.push((y, 2));
                            }
                        }
                    }
                }
            }
            let base = &pts[0].0;
            let mut census: HashMap<(Vec<usize>, bool), Vec<u64>> = HashMap::new();
            // 2-safety tables
            let mut f_tab: HashMap<Vec<u64>, Vec<u64>> = HashMap::new();
            let mut l_tab: HashMap<u64, u64> = HashMap::new();
            let mut g_tab: HashMap<(usize, u64, u64), u64> = HashMap::new();
            let base_out = r.sampler.sample(base, &r.ed, &st_meta);
            let base_bits = outcome_bits(&base_out);
            if is14 && base.len() == gr.dim {
                // "reads exactly get_dimension() coordinates": with one coordinate fewer the call cannot succeed
                let short = &base[..gr.dim - 1];
                acc.inc("short_slice_runs");
                if let Outcome::Ok(_) = r.sampler.sample(short, &r.ed, &st_meta) {
                    acc.violate(
                        vkey("C14", "a slice of get_dimension()-1 coordinates cannot be sampled", &case, base),
                        "reads exactly get_dimension() coordinates",
                        format!("sample returned Ok for a slice of {} coordinates although get_dimension() = {}", gr.dim - 1, gr.dim),
                        point_case(&case, &r.kin, short, &st_meta, json!({"prop":"C14", "short_slice": true})),
                    );
                }
            }
            let mut influenced = vec![false; gr.dim];
            for (pi, (x, ndev)) in pts.iter().enumerate() {
                acc.inc("executions");
                if is14 {
                    let out = r.sampler.sample(x, &r.ed, &st_meta);
                    match &out {
                        Outcome::Panic(p) => {
                            acc.violate(vkey("C14", "exact-length slice does not panic", &case, x), "reads exactly get_dimension() coordinates", format!("sample panicked on a slice of exactly get_dimension() coordinates: {p}"), point_case(&case, &r.kin, x, &st_meta, json!({"prop":"C14"})));
                            continue;
                        }
                        Outcome::Ok(s) => {
                            // mechanism 1: poison beyond get_dimension is ignored
                            if pi % 5 == 0 {
                                for poison in [f64::NAN, 0.0, 1.0] {
                                    let mut xx = x.clone();
                                    xx.extend([poison, poison, poison]);
                                    let o2 = r.sampler.sample(&xx, &r.ed, &st_meta);
                                    acc.inc("poison_runs");
                                    if outcome_bits(&o2) != Ok(sample_bits(s)) {
                                        acc.violate(vkey("C14", "coordinates beyond get_dimension are ignored", &case, x), "ignores any coordinates beyond", format!("appending {poison:e} coordinates changed the result"), point_case(&case, &r.kin, &xx, &st_meta, json!({"prop":"C14"})));
                                    }
                                }
                            }
                            // mechanism 2: non-interference (2-safety) through hashing
                            let fk: Vec<u64> = x[..gr.nf].iter().map(|v| v.to_bits()).collect();
                            let fv = f_group_bits(s);
                            if let Some(prev) = f_tab.get(&fk) {
                                acc.inc("noninterference_pairs");
                                if *prev != fv {
                                    acc.violate(vkey("C14", "Feynman-parameter outputs depend only on the first 2E-2 coordinates", &case, x), "Feynman parameters depend only on the first 2E-2 coordinates", "two points agreeing on the first 2E-2 coordinates gave different u/v/jacobian/L".into(), point_case(&case, &r.kin, x, &st_meta, json!({"prop":"C14"})));
                                }
                            } else {
                                f_tab.insert(fk, fv);
                            }
                            if let Some(m) = &s.meta {
                                let lk = x[gr.p].to_bits();
                                if let Some(prev) = l_tab.get(&lk) {
                                    acc.inc("noninterference_pairs");
                                    if *prev != m.lambda.to_bits() {
                                        acc.violate(vkey("C14", "lambda depends only on its coordinate", &case, x), "the Gamma variate depends only on the next coordinate", format!("lambda differs ({:e} vs {:e}) between points sharing coordinate {}", m.lambda, f64::from_bits(*prev), gr.p), point_case(&case, &r.kin, x, &st_meta, json!({"prop":"C14"})));
                                    }
                                } else {
                                    l_tab.insert(lk, m.lambda.to_bits());
                                }
                                let d = case.g.dim;
                                for l in 0..case.nl {
                                    for c in 0..d {
                                        let idx = l * d + c;
                                        let pair = gr.tail + 2 * (idx / 2);
                                        let key = (idx, x[pair].to_bits(), x[pair + 1].to_bits());
                                        let val = m.q_vectors[l][c].to_bits();
                                        if let Some(prev) = g_tab.get(&key) {
                                            if *prev != val {
                                                acc.violate(vkey("C14", "Gaussian component depends only on its pair", &case, x), "each Gaussian component depends only on its own pair", format!("component {idx} differs between points sharing its pair"), point_case(&case, &r.kin, x, &st_meta, json!({"prop":"C14"})));
                                            }
                                        } else {
                                            g_tab.insert(key, val);
                                        }
                                    }
                                }
                            }
                            // mechanism 3: influence
                            if *ndev == 1 {
                                if let Some(i) = (0..gr.dim).find(|&i| x[i].to_bits() != base[i].to_bits()) {
                                    if outcome_bits(&out) != base_bits {
                                        influenced[i] = true;
                                    } else if i < gr.nf && !influenced[i] {
                                        // a Feynman-group coordinate whose parameter is absorbed by rounding (hierarchies of 1e-40
                                        // between parameters are ordinary): the influence is then visible in the parameter itself
                                        let a = r.sampler.sample_logged(x, &r.ed, &Settings::FULL).1.x_unrescaled;
                                        let b = r.sampler.sample_logged(base, &r.ed, &Settings::FULL).1.x_unrescaled;
                                        let bitsv = |v: &Option<Vec<f64>>| v.as_ref().map(|v| v.iter().map(|f| f.to_bits()).collect::<Vec<_>>());
                                        if a.is_some() && bitsv(&a) != bitsv(&b) {
                                            influenced[i] = true;
                                            acc.inc("influence_seen_only_in_parameters(absorbed by rounding)");
                                        }
                                    }
                                }
                            }
                        }
                        Outcome::Err(_) => {
                            if *ndev == 1 {
                                if let Some(i) = (0..gr.dim).find(|&i| x[i].to_bits() != base[i].to_bits()) {
                                    if outcome_bits(&out) != base_bits {
                                        influenced[i] = true;
                                    }
                                }
                            }
                        }
                    }
                }
                // data flow with the tracking scalar: every point for small graphs, 0/1-deviation points otherwise
                if *ndev <= 1 || ne <= 2 {
                    let lam = if is14 {
                        None
                    } else {
                        match r.sampler.sample(x, &r.ed, &st_meta) {
                            Outcome::Ok(s) => s.meta.map(|m| m.lambda.to_bits()),
                            _ => None,
                        }
                    };
                    dataflow_point(&case, &r, x, &Settings::META, is14, !is14, &mut census, lam, acc);
                    if !is14 {
                        dataflow_point(&case, &r, x, &Settings::DEFAULT, false, true, &mut census, lam, acc);
                        // error exits: stability test that always fails, and a Gamma error
                        if *ndev == 0 {
                            for rs in &sheared {
                                acc.inc("sheared_routing_tracked_executions");
                                dataflow_point(&case, rs, x, &Settings::META, false, true, &mut HashMap::new(), None, acc);
                                dataflow_point(&case, rs, x, &Settings::DEFAULT, false, true, &mut HashMap::new(), None, acc);
                            }
                            let st_u = Settings { stability: Some(-1.0), debug: false, metadata: false };
                            dataflow_point(&case, &r, x, &st_u, false, true, &mut HashMap::new(), None, acc);
                            let mut xz = x.clone();
                            xz[gr.p] = 0.0;
                            dataflow_point(&case, &r, &xz, &Settings::DEFAULT, false, true, &mut HashMap::new(), None, acc);
                        }
                    }
                }
            }
            if is14 {
                // selection coordinates: influence needs an answer selecting another edge
                let mut g = case.g.full();
                for (step, &e) in order.iter().enumerate() {
                    if g.count_ones() < 2 {
                        break;
                    }
                    let base_log = r.sampler.sample_logged(base, &r.ed, &Settings::FULL).1.x_unrescaled;
                    for other in (0..ne).filter(|o| g >> o & 1 == 1 && *o != e) {
                        let mut x = base.clone();
                        x[2 * step] = refsampler::midpoint_u(&case.rt, g, other);
                        let out = r.sampler.sample(&x, &r.ed, &st_meta);
                        acc.inc("executions");
                        if outcome_bits(&out) != base_bits {
                            influenced[2 * step] = true;
                            break;
                        }
                        // symmetric edges (parallel, equal weights and kinematics) give identical outputs: the influence is then
                        // visible only in which edge received which Feynman parameter
                        let lg = r.sampler.sample_logged(&x, &r.ed, &Settings::FULL).1.x_unrescaled;
                        if lg.is_some() && lg.as_ref().map(|v| v.iter().map(|f| f.to_bits()).collect::<Vec<_>>()) != base_log.as_ref().map(|v| v.iter().map(|f| f.to_bits()).collect::<Vec<_>>()) {
                            influenced[2 * step] = true;
                            acc.inc("influence_seen_only_in_parameters(symmetric edges)");
                            break;
                        }
                    }
                    g ^= 1 << e;
                }
                // the padding coordinate of an odd D·L only feeds the discarded sine: exempt
                let padded = gr.dl % 2 == 1;
                for i in 0..gr.dim {
                    let exempt = padded && i >= gr.dim - 2 && false;
                    acc.inc("influence_coordinates");
                    if !influenced[i] && !exempt && base_bits.is_ok() {
                        acc.violate(
                            vkey("C14", &format!("coordinate {i} influences the result"), &case, base),
                            "every coordinate influences the result",
                            format!("no explored alternative for coordinate {i} (of {}) changed any output", gr.dim),
                            point_case(&case, &r.kin, base, &st_meta, json!({"prop":"C14", "coordinate": i})),
                        );
                    }
                }
            }
        }
        if acc.samples.len() < 3 && i % 53 == 3 {
            acc.sample(json!({"graph": graph_json(&case.g), "groups": {"feynman": [0, gr.nf], "lambda": gr.p, "gaussian_from": gr.tail, "dimension": gr.dim}}));
        }
    });
    if is14 {
        acc.merge(disconnected_pass(ctx));
        acc.violations.sort_by(|a, b| (a.key.as_str(), a.what.as_str()).cmp(&(b.key.as_str(), b.what.as_str())));
    }
    let mut extra = serde_json::Map::new();
    if !is14 {
        let dd = dd_pass(ctx);
        acc.merge(dd);
        let dds = dd_sampler_pass(ctx);
        acc.merge(dds);
        acc.violations.sort_by(|a, b| (a.key.as_str(), a.what.as_str()).cmp(&(b.key.as_str(), b.what.as_str())));
        extra.insert("dd_matrices_judged".into(), json!(acc.get("dd_judged")));
    }
    if acc.samples.is_empty() {
        acc.sample(json!({"note": "no sample"}));
    }
    let fin = if is14 {
        Finish {
            level: "model_checking",
            rule: "stateless exploration of the sampler machine over all roles (selection, xi, lambda, Box-Muller) with <=2 deviations per sector; on the explored set: exact-length and poisoned slices, non-interference as a 2-safety property over ALL pairs of explored points (hash tables keyed by each coordinate group), influence of every coordinate, per-execution data-dependence sets from a tracking scalar type, underflow answers (xi = 1e-300, 2^-1074, 0) alone and with one more deviation, a slice of get_dimension()-1 coordinates (must not be sampled), the size ladder; states = executions, transitions = scalar operations traced; non-trivial = executions whose data flow was judged".into(),
            states: acc.get("executions"),
            transitions: acc.get("scalar_ops").max(1),
            traces: acc.get("dataflow_judged"),
            evaluations: acc.get("executions"),
            distinct_nontrivial: acc.get("dataflow_judged"),
            exhaustive: true,
            bounds: json!({"cases": cases.len(), "deviation_bound": 2}),
            assumptions: vec!["lambda crosses the f64 boundary, so its dependence is established by the 2-safety table and C12's relation, not by taint".into()],
            extra,
        }
    } else {
        Finish {
            level: "exploration",
            rule: "(a) narrowing census with a tracking scalar on every explored execution (all sectors in scope, Ok / Unstable / GammaError exits, metadata on and off, debug off): every to_f64 argument is a constant or the designated coordinate, and the multiset of from_f64 arguments (Gamma result excepted) is identical across all points of a sector; (b) double-double scalar through decompose_for_tropical on structured SPD families and graph L matrices against exact rationals at 2^-86*cond; (c) the whole sampler with the double-double scalar (exp/ln/pow in double-double arithmetic) on 2..4-loop bananas: the rescaled parameters recovered from the returned L matrix satisfy the tropical normalisation to 2^-80, u, v agree with the exact polynomials to 2^-86*cond, the momenta satisfy the quadratic-form identity to 2^-84*cond and every Gaussian component equals an independent double-double Box-Muller transform of its pair to 2^-90; the census also runs on the size ladder (7, 8 loops; 8..13 edges); non-trivial = tracked executions + DD matrices judged".into(),
            states: 0,
            transitions: 0,
            traces: 0,
            evaluations: acc.get("tracked_executions") + acc.get("dd_evaluations") + acc.get("dd_sampler_executions"),
            distinct_nontrivial: acc.get("tracked_executions") + acc.get("dd_judged") + acc.get("dd_sampler_judged"),
            exhaustive: true,
            bounds: json!({"cases": cases.len(), "types": ["f64", "Tr (tracking)", "DD (double-double)"]}),
            assumptions: vec!["'any type implementing MomTropFloat' is represented by f64, the tracking scalar and the double-double type".into()],
            extra,
        }
    };
    finish(ctx, &acc, fin)
}

/// accepted graphs that are NOT connected (and trees, self-loop products, ...): the coordinate count must still be exactly
/// get_dimension() = 2E-1+DL+(DL mod 2) with L summed over components. Identity-like signature, differential oracle.
fn disconnected_pass(ctx: &Ctx) -> Acc {
    use crate::scope::*;
    let labels = [0u8, 1, 2, 3];
    let mut shapes: Vec<Vec<(u8, u8)>> = vec![];
    for ne in 2..=3 {
        for s in unordered_pair_shapes(&labels, ne) {
            let g = mk(&s, &vec![true; ne], &vec![4.0; ne], &[], 3);
            if g.components(g.full()).len() >= 2 && g.loop_number(g.full()) >= 1 {
                shapes.push(s);
            }
        }
    }
    shapes.push(vec![(0, 1), (0, 1), (2, 3), (2, 3)]);
    shapes.push(vec![(0, 0), (1, 1), (2, 2), (3, 3)]);
    let dims: Vec<usize> = ctx.tier.pick(vec![3, 4], vec![1, 2, 3, 4, 5, 6]);
    par_for(shapes.len(), |i, acc| {
        let s = &shapes[i];
        let ne = s.len();
        for &d in &dims {
            let g = mk(s, &vec![true; ne], &vec![d as f64; ne], &[], d);
            let sampler = match build(&g, &crate::history::ident_sig(&g)) {
                BuildOutcome::Ok(s) => s,
                _ => continue,
            };
            acc.inc("disconnected_configurations");
            let want = g.hypercube_dim();
            let key = |c: &str| format!("C14/{c}/{:016x}", fnv(&graph_json(&g).to_string()));
            let dim = match sampler.get_dimension() {
                Ok(d) => d,
                Err(p) => {
                    acc.violate(key("get_dimension-panics"), "reads exactly get_dimension() coordinates", format!("get_dimension panicked: {p}"), json!({"engine": "table", "graph": graph_json(&g), "extra": {}}));
                    continue;
                }
            };
            let ed: EdgeData<f64> = (0..ne).map(|e| (Some(1.0 + e as f64), vec![0.25; d])).collect();
            let x: Vec<f64> = (0..dim).map(|k| if k % 3 == 0 { 0.3 } else { 0.5 }).collect();
            let out = sampler.sample(&x, &ed, &Settings::META);
            acc.inc("executions");
            if let Outcome::Panic(p) = &out {
                acc.violate(key("disconnected exact-length slice panics"), "reads exactly get_dimension() coordinates", format!("disconnected graph (get_dimension() = {dim}, 2E-1+DL+(DL mod 2) = {want}): sampling a slice of exactly get_dimension() coordinates panicked: {}", p.chars().take(120).collect::<String>()), json!({"engine": "table", "graph": graph_json(&g), "extra": {}}));
                continue;
            }
            for poison in [f64::NAN, 0.0] {
                let mut xx = x.clone();
                xx.extend([poison; 4]);
                let o2 = sampler.sample(&xx, &ed, &Settings::META);
                acc.inc("poison_runs");
                if outcome_bits(&o2) != outcome_bits(&out) {
                    acc.violate(key("disconnected: coordinates beyond get_dimension are ignored"), "ignores any coordinates beyond", format!("disconnected graph: appending {poison:e} coordinates beyond get_dimension() = {dim} changed the result (2E-1+DL+(DL mod 2) = {want})"), json!({"engine": "table", "graph": graph_json(&g), "extra": {}}));
                    break;
                }
            }
            // every coordinate below get_dimension matters: a slice one short must not give the same result silently
            if dim != want {
                acc.violate(key("disconnected: get_dimension"), "reads exactly get_dimension() coordinates", format!("get_dimension() = {dim} but the sampler needs 2E-1+DL+(DL mod 2) = {want} coordinates"), json!({"engine": "table", "graph": graph_json(&g), "extra": {}}));
            }
        }
    })
}

// ---------------------------------------------------------------------------------------------------
// C19 (b): double-double through the matrix routine
// ---------------------------------------------------------------------------------------------------

fn dd_matrix(n: usize, data: &[f64]) -> SquareMatrix<DD> {
    let mut m = SquareMatrix::new_zeros_from_num(&DD::from(0.0), n);
    for i in 0..n {
        for j in 0..n {
            m[(i, j)] = DD::from(data[i * n + j]);
        }
    }
    m
}

fn dd_flat(m: &SquareMatrix<DD>) -> Option<QMat> {
    let n = m.get_dim();
    let mut q = QMat::zeros(n);
    for i in 0..n {
        for j in 0..n {
            q.a[i][j] = dd_to_q(&m[(i, j)])?;
        }
    }
    Some(q)
}

pub fn check_dd(n: usize, data: &[f64], family: &str, acc: &mut Acc) {
    acc.inc("dd_evaluations");
    let m = match QMat::from_f64(n, data) {
        Some(m) => m,
        None => return,
    };
    if !m.is_spd() {
        return;
    }
    let inv = m.inverse().unwrap();
    let cond = q_to_f64(&(m.norm1() * inv.norm1()));
    if !(cond <= 1e10) {
        return;
    }
    let det = m.det();
    if q_log2(&det).abs() > 900.0 || q_log2(&inv.max_abs()).abs() > 900.0 || q_log2(&m.max_abs()).abs() > 400.0 {
        return;
    }
    let st = TropicalSamplingSettings { matrix_stability_test: None, print_debug_info: false, return_metadata: false };
    DD_NARROW.with(|c| *c.borrow_mut() = 0);
    let res = std::panic::catch_unwind(std::panic::AssertUnwindSafe(|| dd_matrix(n, data).decompose_for_tropical(&st)));
    let narrow = DD_NARROW.with(|c| *c.borrow());
    let key = |c: &str| format!("C19/dd-{c}/{n}x{n}:{:016x}", fnv(&data.iter().map(|x| bits(*x)).collect::<String>()));
    let case = json!({"engine": "kernel", "kind": "dd-matrix", "n": n, "data": jf_vec(data), "family": family});
    let d = match res {
        Ok(Ok(d)) => d,
        Ok(Err(e)) => {
            acc.violate(key("not-ok"), "wider type decomposes SPD input", format!("double-double decomposition of an SPD matrix returned {e:?}"), case);
            return;
        }
        Err(p) => {
            acc.violate(key("panic"), "matrix routine stays inside the user's type", format!("double-double decomposition panicked (a transcendental or unsupported operation was used): {}", panic_message(p)), case);
            return;
        }
    };
    if narrow != 0 {
        acc.violate(key("narrowed"), "matrix routine does not narrow to f64", format!("to_f64 was called {narrow} times inside decompose_for_tropical"), case.clone());
    }
    let tau = 2f64.powi(-100) * 2f64.powi(14) * cond;
    let (iv, qt, qti) = match (dd_flat(&d.inverse), dd_flat(&d.q_transposed), dd_flat(&d.q_transposed_inverse)) {
        (Some(a), Some(b), Some(c)) => (a, b, c),
        _ => {
            acc.violate(key("non-finite"), "finite result", "non-finite double-double result".into(), case);
            return;
        }
    };
    let nw = |a: &QMat, b: &QMat| -> f64 {
        let dd = a.sub(b).max_abs();
        q_to_f64(&(dd / b.max_abs()))
    };
    let e1 = nw(&qt.transpose().mul(&qt), &m);
    let e2 = nw(&qti.mul(&qt), &QMat::identity(n));
    let e3 = nw(&iv, &inv);
    let e4 = dd_to_q(&d.determinant).map(|x| rel_err(&x, &det)).unwrap_or(f64::INFINITY);
    acc.inc("dd_judged");
    for (name, e) in [("QtQ=M", e1), ("QtInv*Qt=I", e2), ("inverse", e3), ("determinant", e4)] {
        acc.max(&format!("dd_err_units_2^-86cond[{name}]"), e / tau);
        if !(e <= tau) {
            acc.violate(
                key(name),
                "a higher-precision type yields correspondingly more precise results",
                format!("double-double {name}: relative error {e:e} > 2^-86*cond = {tau:e}; an f64 detour would give about {:e}", 1.1e-16 * cond),
                case.clone(),
            );
        }
    }
}

pub fn dd_pass(ctx: &Ctx) -> Acc {
    let fams = structured_families(ctx.tier);
    let lms = graph_l_matrices(Tier::Quick);
    let n1 = fams.len();
    par_for(n1 + 8, |i, acc| {
        if i < n1 {
            let (name, n, d) = &fams[i];
            check_dd(*n, d, name, acc);
            let p: Vec<usize> = (0..*n).rev().collect();
            let mut pd = vec![0.0; n * n];
            for a in 0..*n {
                for b in 0..*n {
                    pd[a * n + b] = d[p[a] * n + p[b]];
                }
            }
            check_dd(*n, &pd, name, acc);
        } else {
            for (k, (name, n, d)) in lms.iter().enumerate() {
                if k % 8 == i - n1 {
                    check_dd(*n, d, name, acc);
                }
            }
        }
    })
}

// ---------------------------------------------------------------------------------------------------
// C19 (c): the whole sampler with a double-double scalar (accurate exp / ln / pow), bananas with 2..4 loops
// ---------------------------------------------------------------------------------------------------

/// one execution; returns false if not judged
pub fn check_dd_sample(prop: &str, case: &Case, r: &Routed, x: &[f64], acc: &mut Acc) -> bool {
    let nl = case.nl;
    let ne = case.g.ne();
    let xs: Vec<DD> = x.iter().map(|v| DD::from(*v)).collect();
    let ed: EdgeData<DD> = r.ed.iter().map(|(m, p)| (m.map(DD::from), p.iter().map(|c| DD::from(*c)).collect())).collect();
    DD_ACCURATE.with(|l| *l.borrow_mut() = true);
    let out = r.sampler.sample_with(&xs, &ed, &Settings::META, &NullLogger);
    DD_ACCURATE.with(|l| *l.borrow_mut() = false);
    acc.inc("dd_sampler_executions");
    let s = match &out {
        Outcome::Ok(s) => s,
        _ => return false,
    };
    let m = match &s.meta {
        Some(m) => m,
        None => return false,
    };
    // Feynman parameters from the L matrix of the base routing: tree = {e0}, chords 1..L: L_ij = x_0 (i != j), L_ii = x_i + x_0
    if nl < 2 || ne != nl + 1 {
        return false;
    }
    let x0 = m.l_matrix[1];
    let mut xe: Vec<DD> = vec![x0];
    for i in 0..nl {
        xe.push(m.l_matrix[i * nl + i] - x0);
    }
    let xq: Vec<Q> = match xe.iter().map(dd_to_q).collect::<Option<Vec<Q>>>() {
        Some(v) => v,
        None => return false,
    };
    if xq.iter().any(|q| *q <= Q::from_integer(0.into())) {
        return false;
    }
    let key = |c: &str| vkey(prop, c, case, x);
    let pc = || point_case(case, &r.kin, x, &Settings::META, json!({"prop": prop, "dd_sampler": true}));
    let c19 = prop == "C19";
    // (A) normalisation in the rescaled gauge, at double-double accuracy: U_tr^(D/2) V_tr^dod = 1
    let mut order: Vec<usize> = (0..ne).collect();
    order.sort_by(|a, b| xq[*b].cmp(&xq[*a]));
    // all in double-double arithmetic, with the implementation's own f64 table constants D/2 and dod
    let mut ln_ut = DD::from(0.0);
    for &e in order.iter().take(nl) {
        ln_ut = ln_ut + DD::ln_dd(&xe[e]);
    }
    let ln_vt = DD::ln_dd(&xe[order[ne - 1]]);
    let d2 = case.g.dim as f64 / 2.0;
    let dod_impl = r.sampler.get_dod();
    let lhs_dd = DD::from(d2) * ln_ut + DD::from(dod_impl) * ln_vt;
    let lhs = lhs_dd.hi + lhs_dd.lo;
    let kap = 1.0 + d2 * ln_ut.hi.abs() + dod_impl * ln_vt.hi.abs();
    // the parameters are recovered as differences L_ii - L_ij: a spread x_max/x_min costs that many of the 106 bits
    let spread = q_to_f64(&(&xq[order[0]] / &xq[order[ne - 1]]));
    let tol_a = 2f64.powi(-80) * kap + 2f64.powi(-100) * spread * (d2 * nl as f64 + dod_impl);
    acc.inc("dd_sampler_judged");
    if !c19 {
        // other properties use this pass for their own clause only
    } else if tol_a <= 1e-20 {
        acc.max("dd_sampler_normalisation_units_2^-80", lhs.abs() / tol_a);
        if !(lhs.abs() <= tol_a) {
            acc.violate(
                key("wide type: normalisation"),
                "a higher-precision type yields correspondingly more precise results",
                format!("with a double-double scalar ln(U_tr^(D/2) V_tr^dod) = {lhs:e} after the rescaling (allowed {tol_a:e}); an f64 detour in the rescaling gives about 1e-16"),
                pc(),
            );
            return true;
        }
    } else {
        acc.inc("dd_sampler_normalisation_excluded_spread");
    }
    // (B) u and v against the exact polynomials at the double-double parameters
    let ex_u = u_poly(&case.comb, &xq);
    let ex_f = case.fpoly.eval(&xq);
    // (D) the Gaussian vectors are the Box-Muller transform of their pairs IN THE CALLER'S SCALAR TYPE: recomputed here in
    //     double-double arithmetic (own ln, sqrt, sin, cos and a 107-bit pi)
    if c19 {
        let gr = groups(case);
        let d = case.g.dim;
        let two = DD::from(2.0);
        let pi = DD { hi: std::f64::consts::PI, lo: 1.2246467991473532e-16 };
        'bm: for l in 0..nl {
            for c in 0..d {
                let idx = l * d + c;
                let pair = gr.tail + 2 * (idx / 2);
                if pair + 1 >= x.len() {
                    break 'bm;
                }
                let (a, b) = (DD::from(x[pair]), DD::from(x[pair + 1]));
                if !(x[pair] > 1e-300 && x[pair] < 1.0) {
                    continue;
                }
                let r = DD::sqrt_dd_pub(&(DD::from(-2.0) * DD::ln_dd(&a)));
                let (sn, cs) = DD::sincos_dd(&(two * pi * b));
                let want = if idx % 2 == 0 { cs * r } else { sn * r };
                let got = m.q_vectors[l][c];
                let diff = (got - want).hi.abs();
                let scale = r.hi.abs().max(1e-300);
                acc.inc("dd_sampler_box_muller_judged");
                acc.max("dd_sampler_box_muller_units_2^-90", diff / scale / 2f64.powi(-90));
                if !(diff <= 2f64.powi(-90) * scale) {
                    acc.violate(
                        key("wide type: Box-Muller"),
                        "a higher-precision type yields correspondingly more precise results",
                        format!("double-double Gaussian component {idx} differs from the double-double Box-Muller transform of its pair by {diff:e} (radius {scale:e}); an f64 constant or function in the transform leaves about 1e-16"),
                        pc(),
                    );
                    return true;
                }
            }
        }
    }
    // (C) the Gaussian map of the loop momenta in the caller's scalar type, routing-free form:
    //     Σ_e x_e (|q_e(k)|² + m_e²) = V (1 + |q|² / 2λ), every quantity taken from the double-double outputs
    {
        let kq: Option<Vec<Vec<Q>>> = s.loop_momenta.iter().map(|k| k.iter().map(dd_to_q).collect::<Option<Vec<Q>>>()).collect();
        let gq: Option<Vec<Vec<Q>>> = m.q_vectors.iter().map(|k| k.iter().map(dd_to_q).collect::<Option<Vec<Q>>>()).collect();
        if let (Some(kq), Some(gq), Some(vq), Some(lam)) = (kq, gq, dd_to_q(&s.v), dd_to_q(&m.lambda)) {
            if lam > Q::from_integer(0.into()) && vq > Q::from_integer(0.into()) {
                let lhs = oracle::symanzik::quadratic_form(&r.kin, &xq, &kq);
                let mut qsq = Q::from_integer(0.into());
                for g in gq.iter().flatten() {
                    qsq += g * g;
                }
                let two = Q::from_integer(2.into());
                let rhs = &vq * (Q::from_integer(1.into()) + &qsq / (&two * &lam));
                let l = l_matrix(&r.kin.sig, &xq);
                let kappa_s = l.scaled_cond1().map(|c| q_to_f64(&c)).unwrap_or(f64::INFINITY);
                // scale: sum of the absolute contributions
                let d = case.g.dim;
                let mut scale = Q::from_integer(0.into());
                for e in 0..ne {
                    let m2 = r.kin.masses[e].as_ref().map(|m| m * m).unwrap_or_else(|| Q::from_integer(0.into()));
                    let mut comp = Q::from_integer(0.into());
                    for c in 0..d {
                        let mut a = q_abs(&r.kin.shifts[e][c]);
                        for lp in 0..nl {
                            a += qi(r.kin.sig[e][lp].abs()) * q_abs(&kq[lp][c]);
                        }
                        comp += &a * &a;
                    }
                    scale += &xq[e] * (m2 + comp);
                }
                let scale = q_to_f64(&scale);
                let diff = q_to_f64(&(lhs - rhs)).abs();
                let tol = (2f64.powi(-84) * kappa_s + 2f64.powi(-96) * spread) * scale;
                if tol <= 1e-22 * scale {
                    acc.inc("dd_sampler_momentum_identity_judged");
                    acc.max("dd_sampler_momentum_units", diff / tol);
                    if !(diff <= tol) {
                        acc.violate(
                            key("wide type: loop momenta follow the Gaussian map"),
                            "k = Q^-T sqrt(V/2λ) q - L^-1 u in the caller's scalar type: Σ x_e(|q_e|²+m_e²) = V(1+|q|²/2λ)",
                            format!("with a double-double scalar the quadratic form at the returned momenta differs from V(1+|q|^2/2λ) by {diff:e} (allowed {tol:e}, scale {scale:e}); a detour through f64 gives about 1e-16 of the scale"),
                            pc(),
                        );
                        return true;
                    }
                }
            }
        }
    }
    if !c19 {
        return true;
    }
    if let (Some(uq), Some(vq)) = (dd_to_q(&s.u), dd_to_q(&s.v)) {
        let l = l_matrix(&r.kin.sig, &xq);
        let cond = l.cond1().map(|c| q_to_f64(&c)).unwrap_or(f64::INFINITY);
        let first = v_first_term(&r.kin, &xq);
        let vex = &ex_f / &ex_u;
        let rr = q_to_f64(&(first / &vex)).abs().max(1.0);
        // the recovered parameters carry a relative error 2^-104 * spread (differences of L entries)
        // the recovered parameters carry a relative error 2^-104 * spread (differences of L entries); V is amplified by the
        // scaled condition number and by its cancellation ratio
        let kappa_s = l.scaled_cond1().map(|c| q_to_f64(&c)).unwrap_or(f64::INFINITY);
        let tu = 2f64.powi(-86) * cond + 2f64.powi(-96) * spread;
        let tv = 2f64.powi(-86) * kappa_s * rr + 2f64.powi(-96) * spread * rr.min(1e3);
        let eu = rel_err(&uq, &ex_u);
        let ev = rel_err(&vq, &vex);
        acc.max("dd_sampler_u_units", eu / tu);
        acc.max("dd_sampler_v_units", ev / tv);
        acc.max("dd_sampler_cancellation_ratio_max", rr);
        if tu <= 1e-12 && !(eu <= tu) {
            acc.violate(key("wide type: u"), "a higher-precision type yields correspondingly more precise results", format!("double-double u has relative error {eu:e} against the exact spanning-tree sum (allowed {tu:e})"), pc());
        }
        if tv <= 1e-3 {
            acc.inc("dd_sampler_v_judged");
            if rr >= 1e15 {
                acc.inc("dd_sampler_v_judged_beyond_f64_cancellation");
            }
        }
        if tv <= 1e-3 && !(ev <= tv) {
            acc.violate(key("wide type: v"), "a higher-precision type yields correspondingly more precise results", format!("double-double v has relative error {ev:e} against F/U (allowed {tv:e})"), pc());
        }
    }
    true
}

pub fn dd_sampler_pass(ctx: &Ctx) -> Acc {
    use crate::scope::{banana, mk};
    let mut specs = vec![];
    for l in 2..=4usize {
        for d in [3usize, 4, 5] {
            let ne = l + 1;
            for base in [0.7f64, 1.1, 1.45, 2.3] {
                let w: Vec<f64> = (0..ne).map(|e| base + 0.1 * e as f64).collect();
                let g = mk(&banana(l), &vec![false; ne], &w, &[0, 1], d);
                if admissible(&g) {
                    specs.push(CaseSpec { g, mom_variant: (l + d) % 2, mass_variant: 0, label: "dd".into() });
                    break;
                }
            }
        }
    }
    let tier = ctx.tier;
    par_for(specs.len(), |i, acc| {
        let case = match Case::new(&specs[i]) {
            Some(c) => c,
            None => return,
        };
        let r = match route(&case, &case.base_kin()) {
            Ok(r) => r,
            Err(_) => return,
        };
        acc.inc("dd_sampler_cases");
        let roles = Roles { u: false, xi: true, p: false, ab: false, xi_moderate: true, xi_ladder: false };
        let sectors = all_sectors(case.g.ne());
        let stride = (sectors.len() + tier.pick(5, 23)) / tier.pick(6, 24);
        for (si, order) in sectors.iter().enumerate() {
            if si % stride.max(1) != 0 {
                continue;
            }
            for (x, _) in sector_points(&case, order, 1, &roles) {
                check_dd_sample(&ctx.prop, &case, &r, &x, acc);
            }
        }
        // cancellation from the kinematics: a loop-momentum offset 2^30 times larger than the physical momenta makes
        // V = Σ x (m²+p²) - uᵀL⁻¹u cancel by ~1e18 while L stays well conditioned: hopeless in f64, 14 digits left in double-double
        {
            let a: Vec<Vec<Q>> = (0..case.nl)
                .map(|l| (0..case.g.dim).map(|c| qf(2f64.powi(30 - ((l + c) % 3) as i32)) * qi(if (l + c) % 2 == 0 { 1 } else { -1 })).collect())
                .collect();
            let koff = case.base_kin().offset(&a);
            if let Ok(roff) = route(&case, &koff) {
                let sectors = all_sectors(case.g.ne());
                for order in sectors.iter().step_by((sectors.len() / 4).max(1)) {
                    let x = sector_defaults(&case, order);
                    acc.inc("dd_sampler_offset_points");
                    check_dd_sample(&ctx.prop, &case, &roff, &x, acc);
                }
            }
        }
        // extreme cancellation in V: the momentum-carrying tree edge e0 is removed first (parameter 1) and every other
        // parameter is 1e-12 ... 1e-18 of it; f64 cancels completely there, a wider type must not
        let ne = case.g.ne();
        let order: Vec<usize> = (0..ne).collect();
        let g1 = case.g.full() ^ 1;
        let w1 = q_to_f64(&case.rt.omega[g1]);
        for k in [12.0, 15.0, 17.0, 18.0] {
            let mut x = sector_defaults(&case, &order);
            x[1] = libm::pow(10.0, -k * w1);
            if x[1] > 1e-300 {
                acc.inc("dd_sampler_cancellation_points");
                check_dd_sample(&ctx.prop, &case, &r, &x, acc);
            }
        }
    })
}

pub fn replay_dd(case: &Value) -> i32 {
    let n = case["n"].as_u64().unwrap() as usize;
    let data = unjf_vec(&case["data"]);
    let mut acc = Acc::new();
    check_dd(n, &data, "replay", &mut acc);
    for v in &acc.violations {
        eprintln!("  reproduced: [{}] {}", v.clause, v.what);
    }
    if acc.violations.is_empty() {
        eprintln!("  no violation reproduced");
        0
    } else {
        1
    }
}

pub fn replay_point(ctx: &Ctx, v: &Value) -> i32 {
    let g = graph_from_json(&v["graph"]);
    let spec = CaseSpec { g, mom_variant: v["mom_variant"].as_u64().unwrap_or(0) as usize, mass_variant: v["mass_variant"].as_u64().unwrap_or(0) as usize, label: "replay".into() };
    let case = match Case::new(&spec) {
        Some(c) => c,
        None => return 2,
    };
    let kin = kin_from_json(&v["kin"]);
    let r = match route(&case, &kin) {
        Ok(r) => r,
        Err(_) => return 1,
    };
    let x = unjf_vec(&v["x"]);
    let st = settings_from_json(&v["settings"]);
    let mut acc = Acc::new();
    if v["extra"]["dd_sampler"].as_bool().unwrap_or(false) {
        check_dd_sample(&ctx.prop, &case, &r, &x, &mut acc);
    }
    if v["extra"]["short_slice"].as_bool().unwrap_or(false) {
        let out = r.sampler.sample(&x, &r.ed, &st);
        eprintln!("replay C14 (short slice of {} coordinates, get_dimension() = {}): {:?}", x.len(), groups(&case).dim, out);
        return if let Outcome::Ok(_) = out {
            eprintln!("  reproduced: a slice of get_dimension()-1 coordinates was sampled");
            1
        } else {
            eprintln!("  no violation reproduced");
            0
        };
    }
    let xs = if x.len() > groups(&case).dim { x[..groups(&case).dim].to_vec() } else { x.clone() };
    dataflow_point(&case, &r, &xs, &st, ctx.prop == "C14", ctx.prop == "C19", &mut HashMap::new(), None, &mut acc);
    let out = r.sampler.sample(&x, &r.ed, &st);
    eprintln!("replay {}: x = {:?}\n  outcome {:?}", ctx.prop, x, out);
    for v in &acc.violations {
        eprintln!("  reproduced: [{}] {}", v.clause, v.what);
    }
    if acc.violations.is_empty() {
        eprintln!("  data-flow judgement silent for this single point (2-safety / influence violations need the pair: rerun the check)");
        0
    } else {
        1
    }
}
