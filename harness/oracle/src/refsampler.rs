//! The reference machine of DESIGN §2.1, written from the papers' definitions.
//!
//! SELECT(g) --u--> SCALE(g\e) --ξ--> SELECT … ; LAMBDA --p--> ; GAUSS --(a,b)-->
use crate::graph::*;
use crate::num::*;
use crate::symanzik::{Comb, FPoly};
use num_traits::{ToPrimitive, Zero};

#[derive(Clone, Debug)]
pub struct RefTable {
    pub g: OGraph,
    pub omega: Vec<Q>,
    pub j: Vec<Q>,
    pub nloops: usize,
    pub dod: Q,
}

impl RefTable {
    pub fn new(g: &OGraph) -> Option<Self> {
        let omega = g.omegas();
        // J is only defined when no proper non-empty subset has ω = 0
        for m in 1..g.full() {
            if omega[m].is_zero() {
                return None;
            }
        }
        let j = j_table(g.ne(), &omega);
        Some(RefTable {
            g: g.clone(),
            nloops: g.loop_number(g.full()),
            dod: g.dod(),
            omega,
            j,
        })
    }
    /// I_tr Γ(dod)/ΠΓ(ν) π^{DL/2}
    pub fn normalisation(&self) -> f64 {
        let dod = q_to_f64(&self.dod);
        let mut den = 1.0;
        for &w in &self.g.weights {
            den *= crate::special::gamma(w);
        }
        q_to_f64(&self.j[self.g.full()]) * crate::special::gamma(dod) / den
            * libm::pow(std::f64::consts::PI, (self.g.dim * self.nloops) as f64 / 2.0)
    }
}

#[derive(Clone, Debug)]
pub struct RefRun {
    /// removal order s_1..s_E
    pub order: Vec<usize>,
    /// g_0 = full, g_1, …, g_E = ∅
    pub graphs: Vec<usize>,
    /// smallest distance of a selection answer to an exact cumulative boundary, divided by |g|
    pub margin: f64,
    /// ln of the unrescaled Feynman parameter per edge
    pub ln_x: Vec<f64>,
    /// 1 + Σ_j |ln ξ_j| / ω_j  (amplification of pow rounding)
    pub kappa_cond: f64,
    /// the answers by role
    pub us: Vec<f64>,
    pub xis: Vec<f64>,
    pub p_lambda: f64,
    pub pairs: Vec<(f64, f64)>,
    /// expected Gaussian components, loop-major, D*L of them
    pub gauss: Vec<f64>,
    /// number of coordinates consumed
    pub consumed: usize,
}

/// Run the reference machine on an x-space point (length >= hypercube dim). None if a selection answer is outside [0,1).
pub fn run(t: &RefTable, point: &[f64]) -> Option<RefRun> {
    let ne = t.g.ne();
    let mut pos = 0usize;
    let mut g = t.g.full();
    let mut order = vec![];
    let mut graphs = vec![g];
    let mut margin = f64::INFINITY;
    let mut ln_x = vec![0.0; ne];
    let mut ln_kappa = 0.0f64;
    let mut kappa_cond = 1.0f64;
    let mut us = vec![];
    let mut xis = vec![];
    while g != 0 {
        let e = if g.count_ones() == 1 {
            g.trailing_zeros() as usize
        } else {
            let u = point[pos];
            pos += 1;
            us.push(u);
            if !(0.0..1.0).contains(&u) {
                return None;
            }
            let uq = qf(u);
            let cum = cumulative_probs(ne, g, &t.j, &t.omega);
            let mut chosen = None;
            for (e, c) in &cum {
                let d = q_to_f64(&(c - &uq)).abs() / g.count_ones() as f64;
                // the last boundary is exactly 1 and can never be crossed by u < 1
                if (*e != cum.last().unwrap().0) && d < margin {
                    margin = d;
                }
                if chosen.is_none() && *c >= uq {
                    chosen = Some(*e);
                }
            }
            // distance to 0 boundary does not matter (u >= 0 always selects the first edge with positive mass)
            chosen?
        };
        order.push(e);
        ln_x[e] = ln_kappa;
        g ^= 1 << e;
        graphs.push(g);
        if g == 0 {
            break;
        }
        let xi = point[pos];
        pos += 1;
        xis.push(xi);
        let w = q_to_f64(&t.omega[g]);
        ln_kappa += xi.ln() / w;
        kappa_cond += (xi.ln() / w).abs();
    }
    let p_lambda = point[pos];
    pos += 1;
    let dl = t.g.dim * t.nloops;
    let npairs = (dl + dl % 2) / 2;
    let mut pairs = vec![];
    let mut gauss = vec![];
    for _ in 0..npairs {
        let (a, b) = (point[pos], point[pos + 1]);
        pos += 2;
        pairs.push((a, b));
        let r = libm::sqrt(-2.0 * libm::log(a));
        let th = 2.0 * std::f64::consts::PI * b;
        gauss.push(r * libm::cos(th));
        gauss.push(r * libm::sin(th));
    }
    gauss.truncate(dl);
    Some(RefRun {
        order,
        graphs,
        margin,
        ln_x,
        kappa_cond,
        us,
        xis,
        p_lambda,
        pairs,
        gauss,
        consumed: pos,
    })
}

/// a u-answer that selects edge `e` at subgraph `g` with maximal margin (midpoint of its interval)
pub fn midpoint_u(t: &RefTable, g: usize, e: usize) -> f64 {
    let cum = cumulative_probs(t.g.ne(), g, &t.j, &t.omega);
    let mut prev = Q::zero();
    for (k, c) in cum {
        if k == e {
            return q_to_f64(&((prev + c) / qi(2)));
        }
        prev = c;
    }
    panic!("edge not in g");
}

/// interval (c_{k-1}, c_k] of edge e at g as exact rationals
pub fn interval(t: &RefTable, g: usize, e: usize) -> (Q, Q) {
    let cum = cumulative_probs(t.g.ne(), g, &t.j, &t.omega);
    let mut prev = Q::zero();
    for (k, c) in cum {
        if k == e {
            return (prev, c);
        }
        prev = c;
    }
    panic!("edge not in g");
}

/// tropical values in the log domain by brute force: (ln U_tr, ln F_tr) at ln x
pub fn ln_trop(c: &Comb, fp: &FPoly, ln_x: &[f64]) -> (f64, f64) {
    let mut lu = f64::NEG_INFINITY;
    for &co in &c.tree_co {
        let mut s = 0.0;
        for (e, l) in ln_x.iter().enumerate() {
            if co >> e & 1 == 1 {
                s += l;
            }
        }
        lu = lu.max(s);
    }
    let mut lf = f64::NEG_INFINITY;
    for (exp, coef) in &fp.terms {
        if coef.is_zero() {
            continue;
        }
        let mut s = 0.0;
        for (e, &k) in exp.iter().enumerate() {
            s += k as f64 * ln_x[e];
        }
        lf = lf.max(s);
    }
    (lu, lf)
}

pub fn q_ratio_to_f64(a: &Q, b: &Q) -> f64 {
    (a / b).to_f64().unwrap_or(f64::NAN)
}

/// the sampling algorithm's own tropical values in a sector: U_tr = Π x_e over removals that drop the loop number,
/// V_tr = x_e of the removal that loses the mass-momentum-spanning flag (x given per edge, decreasing along `order`)
pub fn trop_algorithmic(g: &OGraph, order: &[usize], x: &[Q]) -> (Q, Option<Q>) {
    use num_traits::One;
    let mut cur = g.full();
    let mut u = Q::one();
    let mut v = None;
    for &e in order {
        let next = cur ^ (1 << e);
        if g.mass_momentum_spanning(cur) && !g.mass_momentum_spanning(next) {
            v = Some(x[e].clone());
        }
        if g.loop_number(next) < g.loop_number(cur) {
            u *= &x[e];
        }
        cur = next;
    }
    (u, v)
}

#[cfg(test)]
mod tests {
    use super::*;
    use crate::kin::{external_momenta, partial_sums_nonzero};
    use crate::symanzik::{f_poly, u_trop, Comb};

    fn perms(n: usize) -> Vec<Vec<usize>> {
        fn rec(p: &mut Vec<usize>, k: usize, out: &mut Vec<Vec<usize>>) {
            if k == p.len() {
                out.push(p.clone());
                return;
            }
            for i in k..p.len() {
                p.swap(k, i);
                rec(p, k + 1, out);
                p.swap(k, i);
            }
        }
        let mut out = vec![];
        rec(&mut (0..n).collect(), 0, &mut out);
        out
    }

    /// The theorem C02 / C07 rely on, brute-forced independently of the implementation: in every sector the algorithmic
    /// tropical values are the largest monomials of U and of F/U – for generic kinematics. With exactly one declared external
    /// and masses it fails (momentum conservation forces p = 0), which is domain clause G3.
    #[test]
    fn tropical_theorem_brute_force() {
        let labels = [0u8, 1, 2];
        let mut pairs = vec![];
        for (i, &a) in labels.iter().enumerate() {
            for &b in &labels[i..] {
                pairs.push((a, b));
            }
        }
        let (mut sectors_checked, mut single_ext_mismatches) = (0u64, 0u64);
        for ne in 1..=4usize {
            let mut idx = vec![0usize; ne];
            loop {
                let edges: Vec<(u8, u8)> = idx.iter().map(|&i| pairs[i]).collect();
                let base = OGraph { edges: edges.clone(), massive: vec![false; ne], weights: vec![1.0; ne], externals: vec![], dim: 4 };
                if base.is_connected() && (ne <= 3 || idx.iter().sum::<usize>() % 5 == 0) {
                    let verts = base.vertices(base.full());
                    for mm in 0..(1usize << ne) {
                        let massive: Vec<bool> = (0..ne).map(|e| mm >> e & 1 == 1).collect();
                        for em in 0..(1usize << verts.len()) {
                            let ext: Vec<u8> = (0..verts.len()).filter(|i| em >> i & 1 == 1).map(|i| verts[i]).collect();
                            if ext.is_empty() && mm == 0 {
                                continue; // scaleless
                            }
                            let g = OGraph { edges: edges.clone(), massive: massive.clone(), weights: vec![1.0; ne], externals: ext.clone(), dim: 4 };
                            let comb = Comb::new(&g);
                            let moms = external_momenta(&ext, 4, 0);
                            let masses: Vec<Option<Q>> = (0..ne).map(|e| if massive[e] { Some(qr(1 + e as i64, 2)) } else { None }).collect();
                            let fp = f_poly(&comb, &moms, &masses);
                            let generic = ext.len() != 1 && (ext.is_empty() || partial_sums_nonzero(&moms)) && !fp.is_zero();
                            for order in perms(ne) {
                                // strictly decreasing parameters along the removal order
                                let mut x = vec![Q::zero(); ne];
                                for (k, &e) in order.iter().enumerate() {
                                    x[e] = qr(1, 1 << (3 * k));
                                }
                                let (ua, va) = trop_algorithmic(&g, &order, &x);
                                let ub = u_trop(&comb, &x);
                                assert_eq!(ua, ub, "U_tr {edges:?} {order:?}");
                                let vb = &fp.trop(&x) / &ub;
                                let same = va.as_ref() == Some(&vb);
                                if generic {
                                    assert!(same, "V_tr {edges:?} masses {massive:?} ext {ext:?} order {order:?}: {va:?} vs {vb}");
                                    sectors_checked += 1;
                                } else if !same && ext.len() == 1 {
                                    single_ext_mismatches += 1;
                                }
                            }
                        }
                    }
                }
                let mut k = 0;
                while k < ne {
                    idx[k] += 1;
                    if idx[k] < pairs.len() {
                        break;
                    }
                    idx[k] = 0;
                    k += 1;
                }
                if k == ne {
                    break;
                }
            }
        }
        assert!(sectors_checked > 20_000, "{sectors_checked}");
        assert!(single_ext_mismatches > 0, "the single-external exception should be visible");
    }
}
