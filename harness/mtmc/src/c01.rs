//! C01: end-to-end refinement of the reference tropical sampler on the production path (default settings: only
//! jacobian and loop momenta are observable) + exact closed-form anchors that pin the absolute normalisation.
use crate::common::*;
use crate::obs::*;
use crate::sampler::*;
use crate::scope::*;
use crate::sprops::fam_for;
use num_traits::Zero;
use oracle::num::*;
use oracle::refsampler;
use oracle::special::{gamma as ogamma, inv_gamma_p};
use oracle::symanzik::*;
use serde_json::{json, Value};

fn vkey(clause: &str, case: &Case, x: &[f64]) -> String {
    let s: String = x.iter().map(|v| bits(*v)).collect::<Vec<_>>().join("");
    format!("C01/{}/{:016x}/{:016x}", clause.replace('/', "|"), fnv(&graph_json(&case.g).to_string()), fnv(&s))
}

/// reference jacobian and the data needed for the momentum identity, from the oracle's own pieces only
pub struct RefSample {
    pub jac: f64,
    pub x: Vec<f64>,
    pub tol_jac: f64,
    pub ex: ExactAt,
    pub kappa_cond: f64,
    pub lambda: f64,
    pub gauss: Vec<f64>,
    pub p: f64,
}

pub fn reference_sample(case: &Case, kin: &oracle::kin::Kin, x: &[f64]) -> Result<RefSample, &'static str> {
    let rr = refsampler::run(&case.rt, x).ok_or("selection answer outside [0,1)")?;
    if rr.margin < 1e-9 {
        return Err("G5");
    }
    if !case.generic {
        return Err("G3");
    }
    let d2 = case.g.dim as f64 / 2.0;
    let (lut, lft) = refsampler::ln_trop(&case.comb, &case.fpoly, &rr.ln_x);
    let lvt = lft - lut;
    // G4: the implementation forms the tropical values before rescaling; below 1e-280 they are subnormal
    let lmin = rr.ln_x.iter().cloned().fold(f64::INFINITY, f64::min);
    if lut < -640.0 || lmin < -640.0 || lvt < -640.0 || lvt > 640.0 || lut + lvt < -640.0 {
        return Err("G4_underflow_before_rescaling");
    }
    let ln_s = -(d2 * lut + case.dod * lvt) / (d2 * case.nl as f64 + case.dod);
    let xs: Vec<f64> = rr.ln_x.iter().map(|l| libm::exp(l + ln_s)).collect();
    if !xs.iter().all(|v| v.is_finite() && *v >= 1e-140 && *v <= 1e140) {
        return Err("G4");
    }
    let ex = exact_at(case, kin, &xs).ok_or("G4")?;
    if ex.v.is_zero() || ex.v < Q::zero() {
        return Err("G4");
    }
    let xq = &ex.xq;
    let ut = u_trop(&case.comb, xq);
    let ft = case.fpoly.trop(xq);
    let lu = q_ln(&ex.u);
    let lv = q_ln(&ex.v);
    let l_ut = q_ln(&ut);
    let l_vt = q_ln(&ft) - l_ut;
    let jac = case.cached_ref * libm::exp(d2 * (l_ut - lu) + case.dod * (l_vt - lv));
    let l = case.nl as f64;
    let kap = (d2 * l + case.dod * (2.0 * l + 1.0)) * rr.kappa_cond
        + (d2 + case.dod) * ex.kappa_s * ex.r_cancel.max(1.0)
        + 1.0
        + (d2 * (l_ut - lu)).abs()
        + (case.dod * (l_vt - lv)).abs();
    let p = rr.p_lambda;
    let lambda = if p > 0.0 && p < 1.0 { inv_gamma_p(case.dod, p) } else { f64::NAN };
    Ok(RefSample {
        jac,
        x: xs,
        tol_jac: TAU0 * kap,
        ex,
        kappa_cond: rr.kappa_cond,
        lambda,
        gauss: rr.gauss.clone(),
        p,
    })
}

pub fn c01_point(case: &Case, r: &Routed, x: &[f64], acc: &mut Acc) {
    let st = Settings::DEFAULT;
    let out = r.sampler.sample(x, &r.ed, &st);
    acc.inc("executions");
    acc.add("answers_consumed", x.len() as u64);
    let s = match &out {
        Outcome::Ok(s) => s,
        Outcome::Panic(p) => {
            acc.violate(vkey("no-panic", case, x), "sampling an accepted graph does not panic", format!("sample panicked: {p}"), point_case(case, &r.kin, x, &st, json!({"prop": "C01"})));
            return;
        }
        Outcome::Err(_) => {
            acc.inc("sample_errors");
            return;
        }
    };
    let rs = match reference_sample(case, &r.kin, x) {
        Ok(rs) => rs,
        Err(why) => {
            acc.inc(&format!("excluded_{why}"));
            return;
        }
    };
    if !(rs.tol_jac <= 0.05) {
        acc.inc("excluded_ill_conditioned");
        return;
    }
    if !in_range(&[rs.jac, s.jacobian]) || !crate::sprops::jacobian_powers_in_range(case.g.dim as f64 / 2.0, case.dod, s.u, s.v) {
        acc.inc("excluded_G4");
        return;
    }
    acc.inc("points_judged");
    let err = ((s.jacobian - rs.jac) / rs.jac).abs();
    acc.max("c01_jacobian_err_units", err / rs.tol_jac);
    if !(err <= rs.tol_jac) {
        acc.violate(
            vkey("jacobian refines the reference sampler", case, x),
            "jacobian = weight of the tropical sampler of the paper",
            format!("jacobian {:e}, reference sampler gives {:e} (rel err {err:e}, tol {:e})", s.jacobian, rs.jac, rs.tol_jac),
            point_case(case, &r.kin, x, &st, json!({"prop": "C01"})),
        );
        return;
    }
    // routing-free invariant of the momenta: Σ_e x_e(|q_e(k)|²+m_e²) = V (1 + |q|²/2λ)
    if !(rs.p >= 1e-3 && rs.p <= 1.0 - 1e-3) || !rs.lambda.is_finite() || !(rs.lambda > 0.0) {
        acc.inc("momentum_clause_skipped_p_extreme");
        return;
    }
    if !s.loop_momenta.iter().flatten().all(|v| v.is_finite() && v.abs() < 1e140) || !rs.gauss.iter().all(|g| g.is_finite()) {
        acc.inc("excluded_G4");
        return;
    }
    let kq: Vec<Vec<Q>> = s.loop_momenta.iter().map(|k| k.iter().map(|v| qf(*v)).collect()).collect();
    let lhs = quadratic_form(&r.kin, &rs.ex.xq, &kq);
    let qsq: f64 = rs.gauss.iter().map(|g| g * g).sum();
    let v = q_to_f64(&rs.ex.v);
    let rhs = v * (1.0 + qsq / (2.0 * rs.lambda));
    // scale = sum of absolute contributions (as in C10) ; tolerance adds the quantile and parameter uncertainties
    let d = case.g.dim;
    let mut scale = Q::zero();
    for e in 0..case.g.ne() {
        let m2 = r.kin.masses[e].as_ref().map(|m| m * m).unwrap_or_else(Q::zero);
        let mut comp = Q::zero();
        for c in 0..d {
            let mut a = q_abs(&r.kin.shifts[e][c]);
            for l in 0..case.nl {
                a += qi(r.kin.sig[e][l].abs()) * q_abs(&kq[l][c]);
            }
            comp += &a * &a;
        }
        scale += &rs.ex.xq[e] * (m2 + comp);
    }
    let scale = q_to_f64(&scale);
    let tol = TAU0 * (rs.ex.kappa_s + rs.kappa_cond * (2.0 * case.nl as f64 + 2.0)) * scale + 1e-6 * v * qsq / (2.0 * rs.lambda);
    let diff = (q_to_f64(&lhs) - rhs).abs();
    acc.inc("momentum_identity_judged");
    acc.max("c01_momentum_err_units", diff / tol);
    if !(diff <= tol) {
        acc.violate(
            vkey("momenta follow the Gaussian map", case, x),
            "k has the distribution of the tropical sampler: Σ x_e(|q_e|²+m_e²) = V(1+|q|²/2λ)",
            format!("quadratic form at the returned momenta {:e}, reference V(1+|q|^2/2λ) = {rhs:e} (|diff| {diff:e}, tol {tol:e})", q_to_f64(&lhs)),
            point_case(case, &r.kin, x, &st, json!({"prop": "C01"})),
        );
    }
}

/// E = 1 massive self-loop: jacobian is constant over the hypercube and equals the textbook tadpole
fn tadpole_anchor(tier: Tier, acc: &mut Acc) {
    for d in 1..=6usize {
        for nu in [d as f64 / 2.0 + 0.25, d as f64 / 2.0 + 1.0, d as f64 / 2.0 + 3.0] {
            for (mq, mf) in [(qr(1, 2), 0.5f64), (qi(1), 1.0), (qi(3), 3.0)] {
                let g = mk(&flower(1), &[true], &[nu], &[], d);
                let case = match Case::new(&CaseSpec { g: g.clone(), mom_variant: 0, mass_variant: 0, label: "tadpole".into() }) {
                    Some(c) => c,
                    None => continue,
                };
                let mut kin = case.base_kin();
                kin.masses = vec![Some(mq.clone())];
                let r = match route(&case, &kin) {
                    Ok(r) => r,
                    Err(_) => continue,
                };
                let want = libm::pow(std::f64::consts::PI, d as f64 / 2.0) * ogamma(nu - d as f64 / 2.0) / ogamma(nu) * libm::pow(mf, d as f64 - 2.0 * nu);
                let roles = Roles { u: false, xi: false, p: true, ab: true, xi_moderate: true, xi_ladder: false };
                let order = vec![0usize];
                let pts: Vec<Vec<f64>> = match sector_full_product(&case, &order, &roles, tier.pick(20000, 400000)) {
                    Some(p) => p,
                    None => sector_points(&case, &order, 2, &roles).into_iter().map(|p| p.0).collect(),
                };
                acc.inc("anchor_configurations");
                for x in pts {
                    let out = r.sampler.sample(&x, &r.ed, &Settings::DEFAULT);
                    acc.inc("anchor_executions");
                    if let Outcome::Ok(s) = &out {
                        let err = ((s.jacobian - want) / want).abs();
                        acc.max("anchor_err_units_1e-12", err / 1e-12);
                        if !(err <= 1e-12) {
                            acc.violate(
                                format!("C01/tadpole-anchor/D{d}/nu{}/m{}", bits(nu), bits(mf)),
                                "mean of jacobian = Feynman integral (closed form: massive tadpole)",
                                format!("D={d} nu={nu} m={mf}: jacobian {:e}, pi^(D/2) Gamma(nu-D/2)/Gamma(nu) m^(D-2nu) = {want:e}", s.jacobian),
                                point_case(&case, &kin, &x, &Settings::DEFAULT, json!({"prop": "C01", "anchor": "tadpole"})),
                            );
                            break;
                        }
                    }
                }
            }
        }
    }
}

/// ORACLE ANCHOR (supplementary, a different technique: deterministic quadrature; never the source of a VIOLATION line).
/// For the massless bubble the mean of the jacobian over the hypercube is Σ_σ P(σ) ∫_0^1 jac(σ, ξ) dξ (the jacobian does
/// not depend on the Gamma / Gaussian coordinates and on u only through the sector). The inner integral is evaluated by
/// tanh-sinh quadrature of the IMPLEMENTATION's jacobian and compared with the textbook one-loop formula
/// π^{D/2} Γ(ν1+ν2-D/2) Γ(D/2-ν1) Γ(D/2-ν2) / (Γ(ν1) Γ(ν2) Γ(D-ν1-ν2)) (p²)^{D/2-ν1-ν2}.
/// Returns (number of anchors, failures as text).
pub fn bubble_quadrature_anchor() -> (usize, Vec<String>) {
    let mut n = 0;
    let mut fails = vec![];
    let cfgs: Vec<(usize, f64, f64)> = vec![
        (2, 0.75, 0.75),
        (2, 0.625, 0.875),
        (3, 1.0, 1.0),
        (3, 0.75, 1.0),
        (3, 1.25, 0.5),
        (4, 1.5, 1.5),
        (4, 1.0, 1.5),
        (5, 1.5, 1.5),
        (5, 2.0, 1.0),
    ];
    for (d, n1, n2) in cfgs {
        let g = mk(&banana(1), &[false, false], &[n1, n2], &[0, 1], d);
        let case = match Case::new(&CaseSpec { g, mom_variant: 0, mass_variant: 0, label: "anchor".into() }) {
            Some(c) => c,
            None => {
                fails.push(format!("bubble D={d} nu=({n1},{n2}) not admissible for the oracle"));
                continue;
            }
        };
        let p2: f64 = case.ext[0].1.iter().map(|c| q_to_f64(c) * q_to_f64(c)).sum();
        let dh = d as f64 / 2.0;
        let exact = libm::pow(std::f64::consts::PI, dh) * ogamma(n1 + n2 - dh) * ogamma(dh - n1) * ogamma(dh - n2)
            / (ogamma(n1) * ogamma(n2) * ogamma(d as f64 - n1 - n2))
            * libm::pow(p2, dh - n1 - n2);
        let mut mean = 0.0;
        for order in [vec![0usize, 1], vec![1usize, 0]] {
            // the sector's tropical routing (external momentum through the smaller parameter): with the momentum on the
            // large parameter the implementation's v = x p² - u²/L cancels catastrophically for ξ^(1/ω) < 1e-8, which is
            // the regime the properties exclude (cancellation ratio of V) and which biases the quadrature at the 1e-4 level
            let kin = case.tropical_kin(&order);
            let r = match route(&case, &kin) {
                Ok(r) => r,
                Err(e) => {
                    fails.push(format!("bubble D={d} nu=({n1},{n2}) does not build: {e}"));
                    continue;
                }
            };
            let (lo, hi) = refsampler::interval(&case.rt, case.g.full(), order[0]);
            let prob = q_to_f64(&(hi - lo));
            let base = sector_defaults(&case, &order);
            // tanh-sinh on (0,1)
            let h = 1.0 / 32.0;
            let mut acc = 0.0f64;
            let mut k = -220i32;
            while k <= 220 {
                let t = k as f64 * h;
                let sh = (std::f64::consts::FRAC_PI_2) * t.sinh();
                let ch = sh.cosh();
                let w = std::f64::consts::FRAC_PI_2 * t.cosh() / (ch * ch) / 2.0;
                // abscissa computed from the small side to keep relative accuracy near both ends
                let e2 = (-2.0 * sh.abs()).exp();
                let small = e2 / (1.0 + e2); // = (1 - tanh|sh|)/2
                let xi = if sh < 0.0 { small } else { 1.0 - small };
                k += 1;
                if !(xi > 0.0 && xi < 1.0) || w == 0.0 {
                    continue;
                }
                let mut x = base.clone();
                x[1] = xi;
                if let Outcome::Ok(s) = r.sampler.sample(&x, &r.ed, &Settings::DEFAULT) {
                    if s.jacobian.is_finite() {
                        acc += w * s.jacobian * h;
                    }
                }
            }
            mean += prob * acc;
        }
        n += 1;
        let err = ((mean - exact) / exact).abs();
        if !(err <= 1e-6) {
            fails.push(format!("massless bubble D={d} nu=({n1},{n2}) p^2={p2}: quadrature mean of jacobian {mean:e}, textbook value {exact:e} (rel err {err:e})"));
        }
    }
    (n, fails)
}

pub fn run(ctx: &Ctx) -> i32 {
    let tier = ctx.tier;
    let mut cases = fam_for(tier, "C01");
    cases.extend(dl_grid_cases().into_iter().filter(|c| c.g.loop_number(c.g.full()) <= 3 && c.g.dim <= 4));
    // size ladder (beyond 6 loops / 8 edges / 64 signature entries): fixed sector subset, strided one-deviation points
    let n_regular = cases.len();
    cases.extend(large_cases(tier));
    let roles = Roles { u: true, xi: true, p: true, ab: true, xi_moderate: true, xi_ladder: false };
    let k = tier.pick(1, 2);
    // longest first (dynamic hand-out of work items)
    let mut lpt: Vec<usize> = (0..cases.len()).collect();
    lpt.sort_by_key(|&i| {
        let g = &cases[i].g;
        let l = g.loop_number(g.full());
        std::cmp::Reverse((l * l * g.ne() * g.ne(), i))
    });
    let mut acc = par_for(cases.len(), |item, acc| {
        let i = lpt[item];
        let case = match Case::new(&cases[i]) {
            Some(c) => c,
            None => return,
        };
        acc.inc("cases");
        let base = match route_via(&case, &case.base_kin()) {
            Ok(r) => r,
            Err(_) => return,
        };
        let ne = case.g.ne();
        let large = i >= n_regular;
        let sectors = if large { sector_subset(ne, false) } else { all_sectors(ne) };
        // two deviations only for graphs with up to three edges (the thorough tier's k = 2 on the whole family does not fit
        // the wall-clock cap)
        let kk = if large || ne > 3 { 1 } else { k };
        let per_sector = sector_points(&case, &sectors[0], kk, &roles).len() * 2;
        let budget = (tier.pick(1500, 2000) / (case.nl * case.nl).max(1)).max(per_sector);
        let fit = (budget / per_sector.max(1)).max(1);
        let stride = if large { 1 } else { (sectors.len() + fit - 1) / fit };
        let max_pts = tier.pick(10usize, 60);
        if large {
            acc.inc("large_cases");
            acc.hist("large_case_shape", &format!("{}-E{}L{}D{}", case.spec.label, ne, case.nl, case.g.dim));
        }
        // routings with signature entries of magnitude 2 (unimodular shears of the base routing, applied once and twice) and
        // with a reversed loop: the production path must give the same jacobian and the momentum identity in each of them
        let mut sheared: Vec<Routed> = vec![];
        if case.nl >= 1 {
            let bk = case.base_kin();
            let n = case.nl;
            let id: Vec<Vec<i64>> = (0..n).map(|a| (0..n).map(|b| (a == b) as i64).collect()).collect();
            let mut mats: Vec<Vec<Vec<i64>>> = vec![];
            let mut neg = id.clone();
            neg[n - 1][n - 1] = -1;
            mats.push(neg);
            if n >= 2 {
                let mut s1 = id.clone();
                s1[0][1] = 1;
                let mut s2 = id.clone();
                s2[1][0] = -1;
                mats.push(oracle::kin::mat_mul_i(&s1, &s1));
                mats.push(oracle::kin::mat_mul_i(&s1, &s2));
                mats.push(s2);
            }
            for m in mats {
                if let Ok(r) = route_via(&case, &bk.change_basis(&m)) {
                    sheared.push(r);
                }
            }
        }
        for (si, order) in sectors.iter().enumerate() {
            if si % stride != 0 {
                continue;
            }
            if time_up() {
                acc.inc("items_skipped_by_time_cap");
                return;
            }
            acc.inc("sectors");
            {
                let x0 = sector_defaults(&case, order);
                for r in &sheared {
                    acc.inc("sheared_routing_executions");
                    c01_point(&case, r, &x0, acc);
                }
            }
            let trop = route_via(&case, &case.tropical_kin(order)).ok();
            let pts = sector_points(&case, order, kk, &roles);
            let pstep = if large { ((pts.len() + max_pts - 1) / max_pts).max(1) } else { 1 };
            for (pi, (x, _)) in pts.into_iter().enumerate() {
                if pi != 0 && pi % pstep != 0 {
                    continue;
                }
                if pi % 16 == 15 && time_up() {
                    acc.inc("items_skipped_by_time_cap");
                    return;
                }
                c01_point(&case, &base, &x, acc);
                if let Some(t) = &trop {
                    c01_point(&case, t, &x, acc);
                }
            }
        }
        if acc.samples.len() < 3 && i % 59 == 2 {
            acc.sample(json!({"graph": graph_json(&case.g), "clauses": ["jacobian vs reference sampler (own table, sector, kappas, exact U and F, own normalisation)", "momentum identity with own Gamma quantile and Box-Muller"]}));
        }
    });
    let mut anchors = Acc::new();
    tadpole_anchor(tier, &mut anchors);
    acc.merge(anchors);
    let (n_anchor, anchor_fails) = bubble_quadrature_anchor();
    acc.add("oracle_anchor_quadratures", n_anchor as u64);
    acc.violations.sort_by(|a, b| (a.key.as_str(), a.what.as_str()).cmp(&(b.key.as_str(), b.what.as_str())));
    if acc.samples.is_empty() {
        acc.sample(json!({"note": "no sample"}));
    }
    let fin = Finish {
        level: "model_checking",
        rule: format!("(1) stateless exploration of the production path (default settings): every sector in budget, every answer sequence with <= {k} deviations over all roles, in the base routing and the sector's tropical routing; each execution's jacobian and loop momenta are compared with a reference sampler assembled only from oracle pieces (own table and sector, own kappas via libm, exact U and F, own normalisation, own Gamma quantile by bisection, own Box-Muller); (1b) the same clauses on the size ladder (beyond 6 loops / 8 edges / 64 signature entries, fixed sector subset), in routings with signature entries of magnitude 2 and a reversed loop (default point of every explored sector), with kinematics scaled by 2^-30 and 2^24, signed masses, weight patterns and externals listed once per leg; (2) exact closed-form anchors: massive tadpole for D=1..6 x 3 weights x 3 masses on the full alphabet product, where the jacobian is constant so its mean equals its value. states = executions, transitions = answers consumed; non-trivial = executions judged"),
        states: acc.get("executions") + acc.get("anchor_executions"),
        transitions: acc.get("answers_consumed") + acc.get("anchor_executions"),
        traces: acc.get("points_judged") + acc.get("anchor_executions"),
        evaluations: acc.get("executions") + acc.get("anchor_executions"),
        distinct_nontrivial: acc.get("points_judged"),
        exhaustive: true,
        bounds: json!({"deviation_bound": k, "cases": cases.len()}),
        assumptions: vec![
            "CONTINUUM STEP (not decidable by bounded enumeration): the pointwise refinement of the tropical sampler (C04,C06,C07,C08-C13 and this check) implies equality of the hypercube mean with the Feynman integral by the Schwinger/Feynman-parameter representation (Borinsky 2020; momtrop paper)".into(),
            "the test function g enters only through loop_momenta".into(),
        ],
        extra: {
            let mut m = serde_json::Map::new();
            m.insert("oracle_anchor".into(), json!({"technique": "tanh-sinh quadrature of the implementation's jacobian over xi, massless bubble, vs the textbook one-loop formula (supplementary, not the deciding step)", "anchors": n_anchor, "failures": anchor_fails}));
            m
        },
    };
    let code = finish(ctx, &acc, fin);
    if !anchor_fails.is_empty() {
        for f in &anchor_fails {
            eprintln!("[C01] ORACLE-ANCHOR: {f}");
        }
        if code == 0 {
            eprintln!("[C01] MACHINERY: the oracle anchor disagrees with the textbook value while no refinement clause fired: the reference model and the code may share an error (exit 2, no VIOLATION line)");
            return 2;
        }
    }
    code
}

pub fn replay(_ctx: &Ctx, v: &Value) -> i32 {
    let g = graph_from_json(&v["graph"]);
    let spec = CaseSpec { g, mom_variant: v["mom_variant"].as_u64().unwrap_or(0) as usize, mass_variant: v["mass_variant"].as_u64().unwrap_or(0) as usize, label: "replay".into() };
    let case = match Case::new(&spec) {
        Some(c) => c,
        None => return 2,
    };
    let kin = kin_from_json(&v["kin"]);
    let r = match route(&case, &kin) {
        Ok(r) => r,
        Err(_) => return 1,
    };
    let x = unjf_vec(&v["x"]);
    let mut acc = Acc::new();
    if v["extra"]["anchor"] == "tadpole" {
        let out = r.sampler.sample(&x, &r.ed, &Settings::DEFAULT);
        eprintln!("tadpole anchor: {:?}", out);
        tadpole_anchor(Tier::Quick, &mut acc);
    } else {
        c01_point(&case, &r, &x, &mut acc);
    }
    for v in &acc.violations {
        eprintln!("  reproduced: [{}] {}", v.clause, v.what);
    }
    if acc.violations.is_empty() {
        eprintln!("  no violation reproduced");
        0
    } else {
        1
    }
}
