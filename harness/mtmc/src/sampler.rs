//! `sampler` engine infrastructure: cases (configuration + kinematics + built sampler), the deviation-bounded
//! explorer of answer sequences, and per-point exact data. Property clauses live in sprops.rs.
use crate::common::*;
use crate::obs::*;
use crate::scope::*;
use num_traits::{One, Signed, Zero};
use oracle::graph::OGraph;
use oracle::kin::*;
use oracle::linalg::QMat;
use oracle::num::*;
use oracle::refsampler::{self, RefRun, RefTable};
use oracle::symanzik::*;
use serde_json::{json, Value};

// ---------------------------------------------------------------------------------------------------
// cases
// ---------------------------------------------------------------------------------------------------

#[derive(Clone, Debug)]
pub struct CaseSpec {
    pub g: OGraph,
    /// variant of the external momentum set (0/1)
    pub mom_variant: usize,
    /// variant of the mass values
    pub mass_variant: usize,
    pub label: String,
}

pub struct Case {
    pub spec: CaseSpec,
    pub g: OGraph,
    pub rt: RefTable,
    pub comb: Comb,
    pub fpoly: FPoly,
    pub ext: Vec<(u8, Vec<Q>)>,
    pub masses: Vec<Option<Q>>,
    /// generic kinematics (G3): |externals| != 1, partial sums non-zero, F not identically zero
    pub generic: bool,
    pub nl: usize,
    pub dod: f64,
    pub cached_ref: f64,
}

/// mass values; variants 2, 3: the same magnitudes with a NEGATIVE sign on the first massive edge and on every odd-indexed one
/// (only m^2 enters the integral, so a signed mass eigenvalue is legitimate input)
pub fn mass_values(g: &OGraph, variant: usize) -> Vec<Option<Q>> {
    let first = (0..g.ne()).find(|&e| g.massive[e]);
    (0..g.ne())
        .map(|e| {
            if g.massive[e] {
                let m = if (e + variant) % 2 == 0 { qr(1, 2) } else { qi(2) };
                if variant >= 2 && (Some(e) == first || e % 2 == 1) {
                    Some(-m)
                } else {
                    Some(m)
                }
            } else {
                None
            }
        })
        .collect()
}

fn distinct(v: &[u8]) -> Vec<u8> {
    let mut r: Vec<u8> = vec![];
    for &x in v {
        if !r.contains(&x) {
            r.push(x);
        }
    }
    r
}

/// G1 (accepted with margin) + G2 (connected, externals touched) + at least one loop
pub fn admissible(g: &OGraph) -> bool {
    if g.ne() == 0 || !g.is_connected() {
        return false;
    }
    if g.loop_number(g.full()) == 0 {
        return false;
    }
    let vs = g.vertices(g.full());
    if !g.externals.iter().all(|x| vs.contains(x)) {
        return false;
    }
    let eps = qf(1e-9);
    if g.dod() < eps {
        return false;
    }
    for m in 1..g.full() {
        if g.omega(m) < eps {
            return false;
        }
    }
    true
}

impl Case {
    pub fn new(spec: &CaseSpec) -> Option<Case> {
        let g = spec.g.clone();
        if !admissible(&g) {
            return None;
        }
        let rt = RefTable::new(&g)?;
        let comb = Comb::new(&g);
        let ext_v = distinct(&g.externals);
        // units: mom_variant = variant + 10 * unit; unit 1 expresses every dimensionful quantity in units 2^30 times larger
        // (|p|^2 and m^2 of order 1e-17), unit 2 in units 2^24 times smaller. Exact powers of two: still exact in f64.
        let scale = match spec.mom_variant / 10 {
            0 => Q::one(),
            1 => qr(1, 1 << 30),
            _ => qi(1 << 24),
        };
        let ext: Vec<(u8, Vec<Q>)> = external_momenta(&ext_v, g.dim, spec.mom_variant % 10).into_iter().map(|(v, p)| (v, p.iter().map(|c| c * &scale).collect())).collect();
        let masses: Vec<Option<Q>> = mass_values(&g, spec.mass_variant).into_iter().map(|m| m.map(|m| m * &scale)).collect();
        let fpoly = f_poly(&comb, &ext, &masses);
        let generic = ext_v.len() != 1 && partial_sums_nonzero(&ext) && !fpoly.is_zero();
        let nl = g.loop_number(g.full());
        let dod = q_to_f64(&rt.dod);
        let cached_ref = rt.normalisation();
        Some(Case {
            spec: spec.clone(),
            g,
            rt,
            comb,
            fpoly,
            ext,
            masses,
            generic,
            nl,
            dod,
            cached_ref,
        })
    }

    /// base routing: fundamental cycles of the Kruskal tree for the given edge priority
    pub fn kin_for_order(&self, order: &[usize]) -> Kin {
        let t = kruskal_tree(&self.g, order);
        build_kin(&self.g, t, &self.ext, &self.masses)
    }
    pub fn base_kin(&self) -> Kin {
        let order: Vec<usize> = (0..self.g.ne()).collect();
        self.kin_for_order(&order)
    }
    /// routing whose tree prefers the edges removed LAST in the sector (smallest parameters carry the externals)
    pub fn tropical_kin(&self, removal_order: &[usize]) -> Kin {
        let order: Vec<usize> = removal_order.iter().rev().cloned().collect();
        self.kin_for_order(&order)
    }
}

/// a routing of a case bound to a built sampler
pub struct Routed {
    pub kin: Kin,
    pub sampler: Sampler,
    pub ed: EdgeData<f64>,
    pub graph: OGraph,
    pub mgen: Option<MGen>,
    /// how the sampler object was obtained: "built", "cbor" or "json" (restored from its own serialisation)
    pub via: &'static str,
}

pub fn q_exact_f64(q: &Q) -> f64 {
    let f = q_to_f64(q);
    assert!(qf(f) == *q, "harness: kinematic value {q} is not exactly representable");
    f
}

pub fn route(case: &Case, kin: &Kin) -> Result<Routed, String> {
    // the graph handed to the implementation carries the orientation of the routing
    let mut g = case.g.clone();
    g.edges = kin.orient.clone();
    let sig: Vec<Vec<isize>> = kin.sig.iter().map(|r| r.iter().map(|&x| x as isize).collect()).collect();
    let sampler = match build(&g, &sig) {
        BuildOutcome::Ok(s) => s,
        BuildOutcome::Rejected(e) => return Err(format!("rejected: {e}")),
        BuildOutcome::Panicked(p) => return Err(format!("panicked: {p}")),
    };
    let ed: EdgeData<f64> = (0..g.ne())
        .map(|e| {
            (
                kin.masses[e].as_ref().map(q_exact_f64),
                kin.shifts[e].iter().map(q_exact_f64).collect(),
            )
        })
        .collect();
    let mgen = sampler.observe().ok();
    Ok(Routed {
        via: "built",
        mgen,
        kin: kin.clone(),
        sampler,
        ed,
        graph: g,
    })
}

/// Like `route`, but the sampler object is obtained through one of three construction paths chosen deterministically
/// per configuration (hash of graph and signature mod 3): freshly built, restored from CBOR, restored from JSON (only
/// when every table value is finite). The properties quantify over samplers, not over how they were obtained.
pub fn route_via(case: &Case, kin: &Kin) -> Result<Routed, String> {
    let mut r = route(case, kin)?;
    let h = fnv(&format!("{}{:?}", graph_json(&r.graph), kin.sig)) % 3;
    let d = r.graph.dim;
    match h {
        1 => {
            if let Ok(s2) = Sampler::from_cbor(d, &r.sampler.to_cbor()) {
                r.sampler = s2;
                r.via = "cbor";
            }
        }
        2 => {
            let txt = r.sampler.to_json_string();
            if !txt.contains("null") {
                if let Ok(s2) = Sampler::from_json_str(d, &txt) {
                    r.sampler = s2;
                    r.via = "json";
                }
            }
        }
        _ => {}
    }
    Ok(r)
}

pub fn kin_json(k: &Kin) -> Value {
    json!({
        "sig": k.sig,
        "shifts": k.shifts.iter().map(|s| s.iter().map(|x| jf(q_to_f64(x))).collect::<Vec<_>>()).collect::<Vec<_>>(),
        "masses": k.masses.iter().map(|m| m.as_ref().map(|x| jf(q_to_f64(x)))).collect::<Vec<_>>(),
        "orient": k.orient.iter().map(|&(a,b)| json!([a,b])).collect::<Vec<_>>(),
        "ext": k.ext.iter().map(|(v,p)| json!([v, p.iter().map(|x| jf(q_to_f64(x))).collect::<Vec<_>>()])).collect::<Vec<_>>(),
    })
}

pub fn kin_from_json(v: &Value) -> Kin {
    let fq = |x: &Value| qf(unjf(x));
    Kin {
        sig: v["sig"].as_array().unwrap().iter().map(|r| r.as_array().unwrap().iter().map(|x| x.as_i64().unwrap()).collect()).collect(),
        shifts: v["shifts"].as_array().unwrap().iter().map(|r| r.as_array().unwrap().iter().map(fq).collect()).collect(),
        masses: v["masses"].as_array().unwrap().iter().map(|m| if m.is_null() { None } else { Some(fq(m)) }).collect(),
        orient: v["orient"].as_array().unwrap().iter().map(|p| (p[0].as_u64().unwrap() as u8, p[1].as_u64().unwrap() as u8)).collect(),
        ext: v["ext"].as_array().unwrap().iter().map(|p| (p[0].as_u64().unwrap() as u8, p[1].as_array().unwrap().iter().map(fq).collect())).collect(),
    }
}

pub fn point_case(case: &Case, kin: &Kin, x: &[f64], st: &Settings, extra: Value) -> Value {
    json!({
        "engine": "sampler",
        "graph": graph_json(&case.g),
        "mom_variant": case.spec.mom_variant,
        "mass_variant": case.spec.mass_variant,
        "kin": kin_json(kin),
        "x": jf_vec(x),
        "settings": {"stability": st.stability.map(jf), "debug": st.debug, "metadata": st.metadata},
        "extra": extra,
    })
}

pub fn settings_json(st: &Settings) -> Value {
    json!({"stability": st.stability.map(jf), "debug": st.debug, "metadata": st.metadata})
}

pub fn settings_from_json(v: &Value) -> Settings {
    Settings {
        stability: if v["stability"].is_null() { None } else { Some(unjf(&v["stability"])) },
        debug: v["debug"].as_bool().unwrap_or(false),
        metadata: v["metadata"].as_bool().unwrap_or(false),
    }
}

// ---------------------------------------------------------------------------------------------------
// configuration families (G-fam)
// ---------------------------------------------------------------------------------------------------

pub struct FamOpts {
    pub max_e: usize,
    pub max_l: usize,
    pub named: bool,
    pub dims: Vec<usize>,
    /// how many accepted weight assignments to keep per (topology, masses, externals, D)
    pub weights_per: usize,
    pub all_masses_up_to_e: usize,
}

fn external_choices(edges: &[(u8, u8)], any_massive: bool) -> Vec<Vec<u8>> {
    let g = mk(edges, &vec![false; edges.len()], &vec![1.0; edges.len()], &[], 4);
    let vs = g.vertices(g.full());
    let mut res: Vec<Vec<u8>> = vec![];
    if any_massive {
        res.push(vec![]);
        // a single declared external: momentum conservation forces p = 0 (non-generic: the V_tr clauses do not apply, clause
        // G3), but U, F = U Σ m² x, the momenta and the routing independence are still decided
        res.push(vec![vs[0]]);
    }
    let n = vs.len();
    if n >= 2 {
        if n <= 3 {
            for i in 0..n {
                for j in i + 1..n {
                    res.push(vec![vs[i], vs[j]]);
                }
            }
        } else {
            res.push(vec![vs[0], vs[n - 1]]);
            res.push(vec![vs[1], vs[2]]);
        }
    }
    if n >= 3 {
        res.push(vec![vs[0], vs[1], vs[n - 1]]);
        // the same set listed in another order
        res.push(vec![vs[n - 1], vs[0], vs[1]]);
    }
    if n >= 4 {
        res.push(vec![vs[0], vs[1], vs[2], vs[3]]);
    }
    // a vertex with two external legs, listed once per leg
    if n >= 2 {
        res.push(vec![vs[0], vs[n - 1], vs[n - 1]]);
    }
    if n >= 3 {
        res.push(vec![vs[0], vs[1], vs[n - 1], vs[n - 1]]);
    }
    res
}

/// WEIGHT PATTERNS: every assignment of two propagator powers with Gamma(w) != 1 (3/4 and 3/2) to the edges of the graphs with
/// up to 3 edges (and the box): [a,a,b], [a,b,a], [b,a,a], ... - equal powers on neighbouring and on non-neighbouring edges
pub fn weight_pattern_cases() -> Vec<CaseSpec> {
    let mut topos = g_fam_topologies(3, 3);
    topos.push(vec![(0, 1), (1, 2), (2, 3), (3, 0)]);
    let mut res = vec![];
    for topo in &topos {
        let ne = topo.len();
        let g0 = mk(topo, &vec![false; ne], &vec![1.0; ne], &[], 4);
        if g0.loop_number(g0.full()) == 0 || ne < 2 {
            continue;
        }
        let vs = g0.vertices(g0.full());
        for (massive, ext) in [(vec![true; ne], vec![]), (vec![false; ne], vs.clone()), ((0..ne).map(|e| e == 0).collect::<Vec<bool>>(), vec![vs[0], vs[vs.len() - 1]])] {
            if ext.len() == 1 || (ext.len() == 2 && ext[0] == ext[1]) {
                continue;
            }
            for pat in 1..(1usize << ne) - 1 {
                let w: Vec<f64> = (0..ne).map(|e| if pat >> e & 1 == 1 { 1.5 } else { 0.75 }).collect();
                for d in [3usize, 4] {
                    let g = mk(topo, &massive, &w, &ext, d);
                    if admissible(&g) {
                        res.push(CaseSpec { g, mom_variant: d % 2, mass_variant: pat % 2, label: "weights".into() });
                        break;
                    }
                }
            }
        }
    }
    res
}

fn mass_choices(ne: usize, all_up_to: usize) -> Vec<Vec<bool>> {
    if ne <= all_up_to {
        mass_patterns(ne)
    } else {
        vec![
            vec![false; ne],
            vec![true; ne],
            (0..ne).map(|e| e % 2 == 0).collect(),
            (0..ne).map(|e| e == 0).collect(),
            (0..ne).map(|e| e + 1 != ne).collect(),
        ]
    }
}

/// candidate uniform weights in preference order, then a non-uniform perturbation of the first accepted one
fn weight_candidates(ne: usize, d: usize) -> Vec<Vec<f64>> {
    let mut res = vec![];
    for w in [1.0, 2.0 / 3.0, 0.5, 0.75, 1.5, 2.0, d as f64 / 2.0 + 0.25, d as f64] {
        res.push(vec![w; ne]);
        res.push((0..ne).map(|e| w + 0.125 * (e as f64)).collect());
        res.push((0..ne).map(|e| if e % 2 == 0 { w } else { 0.66 }).collect());
    }
    res
}

pub fn family(opts: &FamOpts) -> Vec<CaseSpec> {
    let mut topos = g_fam_topologies(opts.max_e, opts.max_l);
    if opts.named {
        topos.push(mercedes());
        topos.push(ladder2());
        topos.push(banana(4));
        topos.push(banana(5));
        topos.push(flower(4));
        topos.push(flower(5));
    }
    let mut res = vec![];
    for topo in &topos {
        let ne = topo.len();
        let g0 = mk(topo, &vec![false; ne], &vec![1.0; ne], &[], 4);
        if g0.loop_number(g0.full()) == 0 {
            continue;
        }
        for massive in mass_choices(ne, opts.all_masses_up_to_e) {
            let any_m = massive.iter().any(|&m| m);
            for ext in external_choices(topo, any_m) {
                for &d in &opts.dims {
                    let mut kept = 0;
                    for w in weight_candidates(ne, d) {
                        if kept >= opts.weights_per {
                            break;
                        }
                        let g = mk(topo, &massive, &w, &ext, d);
                        if !admissible(&g) {
                            continue;
                        }
                        kept += 1;
                        let mv = (res.len()) % 2;
                        res.push(CaseSpec {
                            label: format!("E{}L{}", ne, g.loop_number(g.full())),
                            g,
                            mom_variant: mv,
                            mass_variant: (res.len() / 2) % 2,
                        });
                    }
                }
            }
        }
    }
    res
}

/// always-accepted all-massive graphs covering every (D, L) cell: L-fold bananas and flowers with weight D
pub fn dl_grid_cases() -> Vec<CaseSpec> {
    let mut res = vec![];
    // D = 1..6 with 1..5 loops; D = 7..11 (beyond one and two 4-lane blocks, D % 4 == 3, the dimensions of string / M theory)
    // with 1..3 loops
    for d in [1usize, 2, 3, 4, 5, 6, 7, 8, 9, 10, 11] {
        for l in 1..=(if d <= 6 { 5usize } else { 3 }) {
            for (name, topo) in [("banana", banana(l)), ("flower", flower(l))] {
                let ne = topo.len();
                let ext: Vec<u8> = if name == "banana" { vec![0, 1] } else { vec![] };
                let g = mk(&topo, &vec![true; ne], &vec![d as f64; ne], &ext, d);
                if admissible(&g) {
                    res.push(CaseSpec {
                        g,
                        mom_variant: (d + l) % 2,
                        mass_variant: l % 2,
                        label: format!("{name}-D{d}L{l}"),
                    });
                }
            }
        }
    }
    res
}

/// SIZE LADDER: configurations beyond the capacity boundaries of the implementation and of small-graph reasoning - more than
/// 6 loops (the L matrix leaves its inline 6x6 storage), more than 8 edges, more than 64 signature entries (edges x loops),
/// D*L >= 17 Gaussian components - each in a few topologies. They are explored on a fixed subset of sectors (`sector_subset`).
pub fn large_cases(tier: Tier) -> Vec<CaseSpec> {
    let mut res = vec![];
    let mut push = |topo: &[(u8, u8)], massive: Vec<bool>, ext: Vec<u8>, dims: &[usize], distinct_w: bool, label: &str| {
        let ne = topo.len();
        for &d in dims {
            for w0 in [1.0f64, 0.75, 1.25, 1.5, 2.0, d as f64 / 2.0 + 0.25, d as f64] {
                let weights: Vec<f64> = (0..ne).map(|e| if distinct_w { w0 + e as f64 / 32.0 } else { w0 }).collect();
                let g = mk(topo, &massive, &weights, &ext, d);
                if admissible(&g) {
                    res.push(CaseSpec { g, mom_variant: d % 2, mass_variant: ne % 2, label: label.to_string() });
                    break;
                }
            }
        }
    };
    // one-loop polygons, every vertex external
    for ne in tier.pick(vec![7usize, 9, 10], vec![7, 8, 9, 10, 11, 12]) {
        let topo: Vec<(u8, u8)> = (0..ne).map(|i| (i as u8, ((i + 1) % ne) as u8)).collect();
        let ext: Vec<u8> = (0..ne as u8).collect();
        push(&topo, vec![false; ne], ext.clone(), &[3, 4], true, "polygon");
        push(&topo, (0..ne).map(|e| e % 2 == 1).collect(), ext, &[3], true, "polygon");
    }
    // bananas and flowers with 6..8 loops
    for l in tier.pick(vec![5usize, 6, 7, 8], vec![5, 6, 7, 8, 9]) {
        let b = banana(l);
        push(&b, vec![true; b.len()], vec![0, 1], &[1, 3, 4], false, "banana");
        let f = flower(l);
        push(&f, vec![true; l], vec![], &[2, 3], true, "flower");
    }
    // 9-cycle with 4 chords: 5 loops, 13 edges (65 signature entries), the last chords carry their own loop momenta
    let mut c13: Vec<(u8, u8)> = (0..9u8).map(|i| (i, (i + 1) % 9)).collect();
    c13.extend([(0u8, 3u8), (1, 5), (2, 7), (4, 8)]);
    push(&c13, (0..13).map(|e| e % 3 == 0).collect(), vec![0, 4, 6], &[3], true, "chorded-cycle");
    // chain of 4 bubbles closed to a ring: 5 loops, 8 edges, block structure in L
    let ring: Vec<(u8, u8)> = vec![(0, 1), (0, 1), (1, 2), (1, 2), (2, 3), (2, 3), (3, 0), (3, 0)];
    push(&ring, vec![false; 8], vec![0, 2], &[3], true, "bubble-ring");
    push(&ring, vec![true; 8], vec![0, 1, 2], &[2], false, "bubble-ring");
    if tier == Tier::Thorough {
        // 14-cycle with 3 chords: 4 loops, 17 edges (68 signature entries)
        let mut c17: Vec<(u8, u8)> = (0..14u8).map(|i| (i, (i + 1) % 14)).collect();
        c17.extend([(0u8, 5u8), (2, 9), (6, 12)]);
        push(&c17, (0..17).map(|e| e % 4 == 1).collect(), vec![0, 7], &[3], true, "chorded-cycle");
    }
    res
}

/// a fixed, deterministic subset of the E! sectors for large E: identity, reverse, a rotation, evens-then-odds,
/// odds-reversed-then-evens, inside-out; plus all rotations of identity and reverse when `more`
pub fn sector_subset(ne: usize, more: bool) -> Vec<Vec<usize>> {
    let id: Vec<usize> = (0..ne).collect();
    let rev: Vec<usize> = id.iter().rev().cloned().collect();
    let rot = |v: &Vec<usize>, k: usize| -> Vec<usize> { (0..ne).map(|i| v[(i + k) % ne]).collect() };
    let mut res = vec![id.clone(), rev.clone(), rot(&id, ne / 2)];
    let evens: Vec<usize> = (0..ne).filter(|i| i % 2 == 0).collect();
    let odds: Vec<usize> = (0..ne).filter(|i| i % 2 == 1).collect();
    res.push(evens.iter().chain(odds.iter()).cloned().collect());
    res.push(odds.iter().rev().chain(evens.iter()).cloned().collect());
    let mut inside: Vec<usize> = vec![];
    let (mut lo, mut hi) = (ne as isize / 2 - 1, ne / 2);
    while inside.len() < ne {
        if hi < ne {
            inside.push(hi);
            hi += 1;
        }
        if lo >= 0 {
            inside.push(lo as usize);
            lo -= 1;
        }
    }
    res.push(inside);
    if more {
        for k in 1..ne {
            res.push(rot(&id, k));
            res.push(rot(&rev, k));
        }
    }
    let mut seen = std::collections::BTreeSet::new();
    res.retain(|o| seen.insert(o.clone()));
    res
}

/// all E! sectors up to 8 edges, the fixed subset above that
pub fn sectors_for(ne: usize, more: bool) -> Vec<Vec<usize>> {
    if ne <= 8 {
        all_sectors(ne)
    } else {
        sector_subset(ne, more)
    }
}

// ---------------------------------------------------------------------------------------------------
// answer alphabets and the deviation-bounded explorer
// ---------------------------------------------------------------------------------------------------

pub const XI_ALPHA: [f64; 8] = [5e-324, 1e-300, 1e-100, 1e-12, 1e-3, 0.25, 0.9, 1.0 - 1.1102230246251565e-16];
pub const XI_MODERATE: [f64; 5] = [1e-12, 1e-3, 0.25, 0.9, 1.0 - 1.1102230246251565e-16];
pub const P_ALPHA: [f64; 10] = [
    0.0,
    5e-324,
    1e-300,
    1e-17,
    1e-9,
    1e-3,
    0.25,
    0.75,
    1.0 - 1e-9,
    1.0 - 1.1102230246251565e-16,
];
pub const A_ALPHA: [f64; 7] = [0.0, 5e-324, 1e-300, 1e-6, 0.1, 0.9, 1.0 - 1.1102230246251565e-16];
pub const B_ALPHA: [f64; 7] = [0.0, 1e-300, 0.125, 0.25, 0.5, 0.75, 1.0 - 1.1102230246251565e-16];

#[derive(Clone, Copy, PartialEq, Debug)]
pub enum Role {
    U,
    Xi,
    P,
    A,
    B,
}

#[derive(Clone, Debug)]
pub struct Roles {
    pub u: bool,
    pub xi: bool,
    pub p: bool,
    pub ab: bool,
    /// use only the moderate ξ values (no underflow-scale answers)
    pub xi_moderate: bool,
    /// add the conditioning ladder: ξ = 10^(-k ω(g)) so that consecutive parameters differ by 10^-k, k up to the
    /// edge of the domain in which the condition-scaled tolerances still bite
    pub xi_ladder: bool,
}

pub const LADDER_K: [f64; 7] = [6.0, 9.0, 9.5, 9.9, 10.1, 10.3, 10.5];

/// ladder alternatives for the ξ drawn after `step+1` removals in the sector
fn xi_ladder_alts(case: &Case, order: &[usize], xi_index: usize) -> Vec<f64> {
    let mut g = case.g.full();
    for s in 0..=xi_index {
        g ^= 1 << order[s];
    }
    let w = q_to_f64(&case.rt.omega[g]);
    LADDER_K
        .iter()
        .map(|k| libm::pow(10.0, -k * w))
        .filter(|x| *x > 1e-300 && *x < 1.0)
        .collect()
}

/// positions of a point for a case: role per coordinate
pub fn roles_of(case: &Case) -> Vec<Role> {
    let ne = case.g.ne();
    let mut r = vec![];
    for _ in 0..ne.saturating_sub(1) {
        r.push(Role::U);
        r.push(Role::Xi);
    }
    r.push(Role::P);
    let dl = case.g.dim * case.nl;
    for _ in 0..(dl + dl % 2) / 2 {
        r.push(Role::A);
        r.push(Role::B);
    }
    r
}

/// the removal order determines the u defaults: midpoints of the sector's intervals
pub fn sector_defaults(case: &Case, order: &[usize]) -> Vec<f64> {
    let roles = roles_of(case);
    let mut x = vec![0.0; roles.len()];
    let mut g = case.g.full();
    let mut step = 0;
    for (i, r) in roles.iter().enumerate() {
        match r {
            Role::U => {
                x[i] = refsampler::midpoint_u(&case.rt, g, order[step]);
                g ^= 1 << order[step];
                step += 1;
            }
            Role::Xi => x[i] = 0.5,
            Role::P => x[i] = 0.5,
            Role::A => x[i] = 0.5,
            Role::B => x[i] = 0.3,
        }
    }
    x
}

/// interior alternatives for the u answer of step `step` in the sector (same edge, close to the interval ends)
fn u_interior_alts(case: &Case, order: &[usize], step: usize) -> Vec<f64> {
    let mut g = case.g.full();
    for s in 0..step {
        g ^= 1 << order[s];
    }
    let (lo, hi) = refsampler::interval(&case.rt, g, order[step]);
    let w = &hi - &lo;
    let delta = q_min(&qf(2f64.powi(-20)), &(&w / qi(4)));
    let a = q_to_f64(&(&lo + &delta));
    let b = q_to_f64(&(&hi - &delta));
    let mut v = vec![];
    for c in [a, b] {
        if (0.0..1.0).contains(&c) {
            v.push(c);
        }
    }
    v
}

/// All points of a sector with at most `k` deviations from the sector defaults, over the enabled roles.
/// Returns (points, number_of_deviations per point).
pub fn sector_points(case: &Case, order: &[usize], k: usize, roles_on: &Roles) -> Vec<(Vec<f64>, usize)> {
    let roles = roles_of(case);
    let base = sector_defaults(case, order);
    let mut alts: Vec<Vec<f64>> = vec![];
    let mut ustep = 0;
    let mut xistep = 0;
    for r in &roles {
        alts.push(match r {
            Role::U => {
                let a = if roles_on.u { u_interior_alts(case, order, ustep) } else { vec![] };
                ustep += 1;
                a
            }
            Role::Xi => {
                let mut a = if roles_on.xi {
                    if roles_on.xi_moderate {
                        XI_MODERATE.to_vec()
                    } else {
                        XI_ALPHA.to_vec()
                    }
                } else {
                    vec![]
                };
                if roles_on.xi_ladder {
                    a.extend(xi_ladder_alts(case, order, xistep));
                }
                xistep += 1;
                a
            }
            Role::P => {
                if roles_on.p {
                    P_ALPHA.to_vec()
                } else {
                    vec![]
                }
            }
            Role::A => {
                if roles_on.ab {
                    A_ALPHA.to_vec()
                } else {
                    vec![]
                }
            }
            Role::B => {
                if roles_on.ab {
                    B_ALPHA.to_vec()
                } else {
                    vec![]
                }
            }
        });
    }
    let mut res = vec![(base.clone(), 0usize)];
    fn rec(
        start: usize,
        left: usize,
        used: usize,
        cur: &mut Vec<f64>,
        alts: &[Vec<f64>],
        res: &mut Vec<(Vec<f64>, usize)>,
    ) {
        if left == 0 {
            return;
        }
        for pos in start..alts.len() {
            let keep = cur[pos];
            for &a in &alts[pos] {
                cur[pos] = a;
                res.push((cur.clone(), used + 1));
                rec(pos + 1, left - 1, used + 1, cur, alts, res);
            }
            cur[pos] = keep;
        }
    }
    let mut cur = base;
    rec(0, k, 0, &mut cur, &alts, &mut res);
    res
}

/// full product of the alternatives (incl. default) over the enabled roles – for tiny graphs
pub fn sector_full_product(case: &Case, order: &[usize], roles_on: &Roles, cap: usize) -> Option<Vec<Vec<f64>>> {
    let roles = roles_of(case);
    let base = sector_defaults(case, order);
    let mut alts: Vec<Vec<f64>> = vec![];
    let mut ustep = 0;
    let mut xistep = 0;
    for (i, r) in roles.iter().enumerate() {
        let mut a = vec![base[i]];
        match r {
            Role::U => {
                if roles_on.u {
                    a.extend(u_interior_alts(case, order, ustep));
                }
                ustep += 1;
            }
            Role::Xi => {
                if roles_on.xi {
                    a.extend(if roles_on.xi_moderate { XI_MODERATE.to_vec() } else { XI_ALPHA.to_vec() });
                }
                if roles_on.xi_ladder {
                    a.extend(xi_ladder_alts(case, order, xistep));
                }
                xistep += 1;
            }
            Role::P => {
                if roles_on.p {
                    a.extend(P_ALPHA);
                }
            }
            Role::A => {
                if roles_on.ab {
                    a.extend(A_ALPHA);
                }
            }
            Role::B => {
                if roles_on.ab {
                    a.extend(B_ALPHA);
                }
            }
        }
        alts.push(a);
    }
    let total: usize = alts.iter().map(|a| a.len()).try_fold(1usize, |p, n| p.checked_mul(n))?;
    if total > cap {
        return None;
    }
    let mut res = Vec::with_capacity(total);
    let mut idx = vec![0usize; alts.len()];
    loop {
        res.push(idx.iter().enumerate().map(|(i, &j)| alts[i][j]).collect());
        let mut p = 0;
        while p < alts.len() {
            idx[p] += 1;
            if idx[p] < alts[p].len() {
                break;
            }
            idx[p] = 0;
            p += 1;
        }
        if p == alts.len() {
            break;
        }
    }
    Some(res)
}

pub fn all_sectors(ne: usize) -> Vec<Vec<usize>> {
    all_permutations(ne)
}

// ---------------------------------------------------------------------------------------------------
// exact data at a point
// ---------------------------------------------------------------------------------------------------

pub struct ExactAt {
    pub xq: Vec<Q>,
    pub l: QMat,
    pub linv: QMat,
    pub u: Q,
    pub f: Q,
    pub v: Q,
    /// plain cond_1(L)
    pub cond1: f64,
    /// scaled condition number κ_s
    pub kappa_s: f64,
    /// cancellation ratio of V: Σ x_e(m²+p²)/V
    pub r_cancel: f64,
}

/// exact Symanzik data at the given (rescaled) Feynman parameters; None if not evaluable (zero / non-finite x, singular L)
pub fn exact_at(case: &Case, kin: &Kin, x: &[f64]) -> Option<ExactAt> {
    if !x.iter().all(|v| v.is_finite() && *v > 0.0) {
        return None;
    }
    let xq: Vec<Q> = x.iter().map(|&v| qf(v)).collect();
    let l = l_matrix(&kin.sig, &xq);
    let linv = l.inverse()?;
    let u = u_poly(&case.comb, &xq);
    let f = case.fpoly.eval(&xq);
    if u.is_zero() {
        return None;
    }
    let v = &f / &u;
    let cond1 = q_to_f64(&(l.norm1() * linv.norm1()));
    let kappa_s = l.scaled_cond1().map(|c| q_to_f64(&c)).unwrap_or(f64::INFINITY);
    let first = v_first_term(kin, &xq);
    let r_cancel = if v.is_zero() { f64::INFINITY } else { q_to_f64(&(first / &v)).abs() };
    Some(ExactAt {
        xq,
        l,
        linv,
        u,
        f,
        v,
        cond1,
        kappa_s,
        r_cancel,
    })
}

pub const TAU0: f64 = 3.637978807091713e-12; // 2^-52 * 2^14

/// G4: every listed quantity within [1e-280, 1e280]
pub fn in_range(vals: &[f64]) -> bool {
    vals.iter().all(|v| v.is_finite() && v.abs() >= 1e-280 && v.abs() <= 1e280)
}

pub fn q_in_range(q: &Q) -> bool {
    if q.is_zero() {
        return false;
    }
    let l = q_log2(q);
    l.abs() < 930.0
}

/// relative error |f - r|/|r| of an f64 against an exact rational
pub fn rel_err_f(f: f64, r: &Q) -> f64 {
    if !f.is_finite() {
        return f64::INFINITY;
    }
    rel_err(&qf(f), r)
}

// ---------------------------------------------------------------------------------------------------
// driver used by every sampler property
// ---------------------------------------------------------------------------------------------------

pub struct PointObs {
    pub x: Vec<f64>,
    pub out: Outcome<f64>,
    pub log: LogRec,
    pub rr: Option<RefRun>,
}

pub fn observe_point(case: &Case, routed: &Routed, x: &[f64], st: &Settings) -> PointObs {
    let (out, log) = if st.debug {
        routed.sampler.sample_logged(x, &routed.ed, st)
    } else {
        (routed.sampler.sample(x, &routed.ed, st), LogRec::default())
    };
    let rr = refsampler::run(&case.rt, x);
    PointObs {
        x: x.to_vec(),
        out,
        log,
        rr,
    }
}

pub fn c16b_pass(ctx: &Ctx) -> Acc {
    crate::sprops::c16b(ctx)
}

#[allow(dead_code)]
fn _keep(_: Q) -> bool {
    Q::one().is_positive()
}
