//! Independent transcendental pieces: Γ via libm, regularised incomplete gamma by series / Lentz.
pub fn gamma(x: f64) -> f64 {
    libm::tgamma(x)
}
pub fn ln_gamma(x: f64) -> f64 {
    libm::lgamma(x)
}

/// (P(a,x), Q(a,x)) regularised lower / upper incomplete gamma, a > 0, x >= 0. Each is computed directly
/// on the side where it is small, so both are accurate relatively (≈1e-14).
pub fn inc_gamma(a: f64, x: f64) -> (f64, f64) {
    if x <= 0.0 {
        return (0.0, 1.0);
    }
    if x.is_infinite() {
        return (1.0, 0.0);
    }
    let lg = ln_gamma(a);
    if x < a + 1.0 {
        // series for P
        let mut ap = a;
        let mut del = 1.0 / a;
        let mut sum = del;
        for _ in 0..100000 {
            ap += 1.0;
            del *= x / ap;
            sum += del;
            if del.abs() < sum.abs() * 1e-17 {
                break;
            }
        }
        let p = sum * (-x + a * x.ln() - lg).exp();
        let p = p.min(1.0);
        (p, 1.0 - p)
    } else {
        // modified Lentz for Q
        let tiny = 1e-300;
        let mut b = x + 1.0 - a;
        let mut c = 1.0 / tiny;
        let mut d = 1.0 / b;
        let mut h = d;
        for i in 1..100000 {
            let an = -(i as f64) * (i as f64 - a);
            b += 2.0;
            d = an * d + b;
            if d.abs() < tiny {
                d = tiny;
            }
            c = b + an / c;
            if c.abs() < tiny {
                c = tiny;
            }
            d = 1.0 / d;
            let del = d * c;
            h *= del;
            if (del - 1.0).abs() < 1e-16 {
                break;
            }
        }
        let q = (-x + a * x.ln() - lg).exp() * h;
        let q = q.min(1.0);
        (1.0 - q, q)
    }
}

/// reference quantile: λ with P(a,λ) = p, by bisection in log space on the accurate side. p in (0,1).
pub fn inv_gamma_p(a: f64, p: f64) -> f64 {
    if p <= 0.0 {
        return 0.0;
    }
    if p >= 1.0 {
        return f64::INFINITY;
    }
    let f = |x: f64| -> f64 {
        let (pp, qq) = inc_gamma(a, x);
        if p <= 0.5 {
            pp - p
        } else {
            (1.0 - p) - qq
        }
    };
    let (mut lo, mut hi) = (-800.0f64, 8.0f64); // ln x range
    // widen hi
    while f(hi.exp()) < 0.0 && hi < 700.0 {
        hi += 2.0;
    }
    for _ in 0..200 {
        let mid = 0.5 * (lo + hi);
        if f(mid.exp()) < 0.0 {
            lo = mid;
        } else {
            hi = mid;
        }
    }
    (0.5 * (lo + hi)).exp()
}

#[cfg(test)]
mod tests {
    use super::*;
    #[test]
    fn known_values() {
        // P(1,x) = 1-e^-x
        for x in [1e-10, 0.1, 1.0, 3.0, 30.0] {
            let (p, q) = inc_gamma(1.0, x);
            assert!((p - (-(-x as f64).exp_m1())).abs() < 1e-14 * p.max(1e-300), "{x}");
            assert!((q - (-x as f64).exp()).abs() < 1e-13 * q);
        }
        // P(1/2, x) = erf(sqrt x)
        for x in [0.01, 0.5, 2.0, 9.0] {
            let (p, _) = inc_gamma(0.5, x);
            assert!((p - libm::erf((x as f64).sqrt())).abs() < 1e-14);
        }
        // P(2,x) = 1-(1+x)e^-x
        for x in [0.2, 2.0, 10.0, 50.0] {
            let (p, q) = inc_gamma(2.0, x);
            assert!((q - (1.0 + x) * (-x as f64).exp()).abs() < 1e-13 * q);
            assert!((p + q - 1.0).abs() < 1e-15);
        }
        assert!((gamma(0.5) - std::f64::consts::PI.sqrt()).abs() < 1e-15);
        assert!((gamma(5.0) - 24.0).abs() < 1e-13);
        for (a, p) in [(0.05, 0.3), (0.7, 1e-9), (3.5, 0.999999), (100.0, 0.5), (1.0, 0.25)] {
            let x = inv_gamma_p(a, p);
            let (pp, qq) = inc_gamma(a, x);
            if p <= 0.5 {
                assert!((pp - p).abs() < 1e-12 * p, "{a} {p} {x} {pp}");
            } else {
                assert!((qq - (1.0 - p)).abs() < 1e-12 * (1.0 - p), "{a} {p}");
            }
        }
    }
}
