//! `sampler` engine (under construction)
use crate::common::*;

pub fn c16b_pass(_ctx: &Ctx) -> Acc {
    Acc::new()
}
