#!/usr/bin/env bash
# usage: tools/verify_seed.sh <Cxx> <A|B> [<worktree-prefix, default /tmp/mut->]
# Confirms, in the scratch worktree <prefix><Cxx>, what a seeded change claims:
#   (1) the patch applies to a clean HEAD and the crate builds with the feature sets,
#   (2) the unedited baseline suite still passes with the change,
#   (3) the demonstration fails with the change and passes without it.
# Writes /tmp/mut-<Cxx>/MUTATION/verify_<V>.json
set -u
ID="$1"; V="$2"; PFX="${3:-/tmp/mut-}"
W=$PFX$ID
M=$W/MUTATION
cd "$W" || exit 2
export CARGO_NET_OFFLINE=true
[ -f Cargo.lock ] || cp /repo/Cargo.lock Cargo.lock
git checkout -q -- src 2>/dev/null
rm -f tests/demo_*.rs
PATCH=$M/patch$V.diff
DEMO=$M/demo_${ID}_$V.rs
res() { echo "{\"id\":\"$ID\",\"variant\":\"$V\",\"applies\":$1,\"builds_features\":$2,\"suite_passes_with_change\":$3,\"suite_summary\":\"$4\",\"demo_fails_with_change\":$5,\"demo_passes_without_change\":$6}" > $M/verify_$V.json; cat $M/verify_$V.json; }
[ -f "$PATCH" ] && [ -f "$DEMO" ] || { res false false false "missing files" false false; exit 1; }
git apply --check "$PATCH" 2>/dev/null || { res false false false "patch does not apply" false false; exit 1; }
git apply "$PATCH"
B=true
cargo build --offline -q --features log 2>/dev/null || B=false
cargo build --offline -q --features verif-hooks,log 2>/dev/null || B=false
OUT=$(cargo test --workspace --no-fail-fast --offline 2>&1)
PASSED=$(echo "$OUT" | grep -E "^test result" | awk '{s+=$4} END {print s+0}')
FAILED=$(echo "$OUT" | grep -E "^test result" | awk '{s+=$6} END {print s+0}')
SUITE=false; [ "$PASSED" = "35" ] && [ "$FAILED" = "0" ] && SUITE=true
cp "$DEMO" tests/demo_$ID.rs
DF=false
cargo test --offline --test demo_$ID >/dev/null 2>&1 || DF=true
git checkout -q -- src
DP=false
cargo test --offline --test demo_$ID >/dev/null 2>&1 && DP=true
rm -f tests/demo_$ID.rs
res true $B $SUITE "passed=$PASSED failed=$FAILED" $DF $DP
