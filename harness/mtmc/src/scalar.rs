//! Instrumented scalar types plugged into the generic sampler through `MomTropFloat`:
//! `Tr` – f64 value + data-dependence set + probe (narrowing census, comparison log, scheduling points);
//! `DD` – double-double arithmetic (≈106 bits) for the precision-carrying matrix kernel.
use momtrop::float::MomTropFloat;
use std::cell::RefCell;
use std::ops::{Add, AddAssign, Div, Mul, MulAssign, Neg, Sub, SubAssign};

#[derive(Default, Clone, Debug)]
pub struct Probe {
    pub ops: u64,
    /// (value bits, deps) of every to_f64 call
    pub to_f64: Vec<(u64, u128)>,
    /// argument bits of every from_f64 call
    pub from_f64: Vec<u64>,
    /// union of operand deps of every comparison (PartialOrd / PartialEq) with at least one tainted operand
    pub compares: Vec<(u128, u128)>,
}

thread_local! {
    pub static PROBE: RefCell<Probe> = RefCell::new(Probe::default());
    /// scheduling hook: called at every scalar operation (set by the sched engine)
    pub static POINT_HOOK: RefCell<Option<Box<dyn Fn()>>> = const { RefCell::new(None) };
    /// environment deviation for C16: the `which`-th call of `Tr::inv` on this thread (usize::MAX: every call) answers
    /// `factor / x` instead of `1 / x` (a scalar type with an inexact reciprocal)
    pub static INV_FAULT: std::cell::Cell<Option<(usize, f64)>> = const { std::cell::Cell::new(None) };
    pub static INV_CALLS: std::cell::Cell<usize> = const { std::cell::Cell::new(0) };
}

pub fn set_inv_fault(f: Option<(usize, f64)>) {
    INV_FAULT.with(|c| c.set(f));
    INV_CALLS.with(|c| c.set(0));
}

pub fn probe_reset() {
    PROBE.with(|p| *p.borrow_mut() = Probe::default());
}
pub fn probe_take() -> Probe {
    PROBE.with(|p| std::mem::take(&mut *p.borrow_mut()))
}

#[inline]
fn tick() {
    PROBE.with(|p| p.borrow_mut().ops += 1);
    POINT_HOOK.with(|h| {
        if let Some(f) = &*h.borrow() {
            f()
        }
    });
}

#[derive(Clone, Copy, Debug)]
pub struct Tr {
    pub v: f64,
    pub deps: u128,
}

impl Tr {
    pub fn new(v: f64, deps: u128) -> Self {
        Tr { v, deps }
    }
}

impl PartialEq for Tr {
    fn eq(&self, o: &Self) -> bool {
        tick();
        if self.deps | o.deps != 0 {
            PROBE.with(|p| p.borrow_mut().compares.push((self.deps, o.deps)));
        }
        self.v == o.v
    }
}
impl PartialOrd for Tr {
    fn partial_cmp(&self, o: &Self) -> Option<std::cmp::Ordering> {
        tick();
        if self.deps | o.deps != 0 {
            PROBE.with(|p| p.borrow_mut().compares.push((self.deps, o.deps)));
        }
        self.v.partial_cmp(&o.v)
    }
}

macro_rules! binop {
    ($ty:ident, $tr:ident, $m:ident, $f:expr) => {
        impl $tr<$ty> for $ty {
            type Output = $ty;
            fn $m(self, o: $ty) -> $ty {
                $f(&self, &o)
            }
        }
        impl<'a> $tr<&'a $ty> for $ty {
            type Output = $ty;
            fn $m(self, o: &'a $ty) -> $ty {
                $f(&self, o)
            }
        }
        impl<'a> $tr<$ty> for &'a $ty {
            type Output = $ty;
            fn $m(self, o: $ty) -> $ty {
                $f(self, &o)
            }
        }
        impl<'a, 'b> $tr<&'b $ty> for &'a $ty {
            type Output = $ty;
            fn $m(self, o: &'b $ty) -> $ty {
                $f(self, o)
            }
        }
    };
}

binop!(Tr, Add, add, |a: &Tr, b: &Tr| {
    tick();
    Tr { v: a.v + b.v, deps: a.deps | b.deps }
});
binop!(Tr, Sub, sub, |a: &Tr, b: &Tr| {
    tick();
    Tr { v: a.v - b.v, deps: a.deps | b.deps }
});
binop!(Tr, Mul, mul, |a: &Tr, b: &Tr| {
    tick();
    Tr { v: a.v * b.v, deps: a.deps | b.deps }
});
binop!(Tr, Div, div, |a: &Tr, b: &Tr| {
    tick();
    Tr { v: a.v / b.v, deps: a.deps | b.deps }
});

impl Neg for Tr {
    type Output = Tr;
    fn neg(self) -> Tr {
        tick();
        Tr { v: -self.v, deps: self.deps }
    }
}
impl<'a> Neg for &'a Tr {
    type Output = Tr;
    fn neg(self) -> Tr {
        tick();
        Tr { v: -self.v, deps: self.deps }
    }
}
impl<'a> AddAssign<&'a Tr> for Tr {
    fn add_assign(&mut self, o: &'a Tr) {
        tick();
        self.v += o.v;
        self.deps |= o.deps;
    }
}
impl<'a> SubAssign<&'a Tr> for Tr {
    fn sub_assign(&mut self, o: &'a Tr) {
        tick();
        self.v -= o.v;
        self.deps |= o.deps;
    }
}
impl<'a> MulAssign<&'a Tr> for Tr {
    fn mul_assign(&mut self, o: &'a Tr) {
        tick();
        self.v *= o.v;
        self.deps |= o.deps;
    }
}

macro_rules! un {
    ($name:ident, $f:expr) => {
        fn $name(&self) -> Self {
            tick();
            Tr { v: $f(self.v), deps: self.deps }
        }
    };
}

impl MomTropFloat for Tr {
    fn one(&self) -> Self {
        tick();
        Tr { v: 1.0, deps: 0 }
    }
    fn zero(&self) -> Self {
        tick();
        Tr { v: 0.0, deps: 0 }
    }
    #[allow(non_snake_case)]
    fn PI(&self) -> Self {
        tick();
        Tr { v: std::f64::consts::PI, deps: 0 }
    }
    un!(ln, f64::ln);
    un!(exp, f64::exp);
    un!(cos, f64::cos);
    un!(sin, f64::sin);
    un!(sqrt, f64::sqrt);
    un!(abs, f64::abs);
    fn inv(&self) -> Self {
        tick();
        let k = INV_CALLS.with(|c| {
            let k = c.get();
            c.set(k + 1);
            k
        });
        let num = match INV_FAULT.with(|c| c.get()) {
            Some((which, factor)) if which == usize::MAX || which == k => factor,
            _ => 1.0,
        };
        Tr { v: num / self.v, deps: self.deps }
    }
    fn powf(&self, p: &Self) -> Self {
        tick();
        Tr { v: f64::powf(self.v, p.v), deps: self.deps | p.deps }
    }
    fn from_isize(&self, value: isize) -> Self {
        tick();
        Tr { v: value as f64, deps: 0 }
    }
    fn from_f64(&self, value: f64) -> Self {
        tick();
        PROBE.with(|p| p.borrow_mut().from_f64.push(value.to_bits()));
        Tr { v: value, deps: 0 }
    }
    fn to_f64(&self) -> f64 {
        tick();
        PROBE.with(|p| p.borrow_mut().to_f64.push((self.v.to_bits(), self.deps)));
        self.v
    }
}

// =====================================================================================================
// double-double
// =====================================================================================================

#[derive(Clone, Copy, Debug)]
pub struct DD {
    pub hi: f64,
    pub lo: f64,
}

#[inline]
fn two_sum(a: f64, b: f64) -> (f64, f64) {
    let s = a + b;
    let bb = s - a;
    let e = (a - (s - bb)) + (b - bb);
    (s, e)
}
#[inline]
fn quick_two_sum(a: f64, b: f64) -> (f64, f64) {
    let s = a + b;
    (s, b - (s - a))
}
#[inline]
fn two_prod(a: f64, b: f64) -> (f64, f64) {
    let p = a * b;
    (p, a.mul_add(b, -p))
}

impl DD {
    pub fn from(x: f64) -> DD {
        DD { hi: x, lo: 0.0 }
    }
    fn add_dd(a: &DD, b: &DD) -> DD {
        let (s1, s2) = two_sum(a.hi, b.hi);
        let (t1, t2) = two_sum(a.lo, b.lo);
        let s2 = s2 + t1;
        let (s1, s2) = quick_two_sum(s1, s2);
        let s2 = s2 + t2;
        let (hi, lo) = quick_two_sum(s1, s2);
        DD { hi, lo }
    }
    fn neg_dd(a: &DD) -> DD {
        DD { hi: -a.hi, lo: -a.lo }
    }
    fn mul_dd(a: &DD, b: &DD) -> DD {
        let (p1, p2) = two_prod(a.hi, b.hi);
        let p2 = p2 + (a.hi * b.lo + a.lo * b.hi);
        let (hi, lo) = quick_two_sum(p1, p2);
        DD { hi, lo }
    }
    fn div_dd(a: &DD, b: &DD) -> DD {
        let q1 = a.hi / b.hi;
        let r = DD::add_dd(a, &DD::neg_dd(&DD::mul_dd(b, &DD::from(q1))));
        let q2 = r.hi / b.hi;
        let r = DD::add_dd(&r, &DD::neg_dd(&DD::mul_dd(b, &DD::from(q2))));
        let q3 = r.hi / b.hi;
        let (q1, q2) = quick_two_sum(q1, q2);
        DD::add_dd(&DD { hi: q1, lo: q2 }, &DD::from(q3))
    }
    pub fn sqrt_dd_pub(a: &DD) -> DD {
        DD::sqrt_dd(a)
    }
    fn sqrt_dd(a: &DD) -> DD {
        if a.hi == 0.0 && a.lo == 0.0 {
            return DD::from(0.0);
        }
        if a.hi < 0.0 {
            return DD::from(f64::NAN);
        }
        let x = 1.0 / a.hi.sqrt();
        let ax = a.hi * x;
        let axd = DD::from(ax);
        let diff = DD::add_dd(a, &DD::neg_dd(&DD::mul_dd(&axd, &axd)));
        DD::add_dd(&axd, &DD::from(diff.hi * (x * 0.5)))
    }
}

impl PartialEq for DD {
    fn eq(&self, o: &Self) -> bool {
        self.hi == o.hi && self.lo == o.lo
    }
}
impl PartialOrd for DD {
    fn partial_cmp(&self, o: &Self) -> Option<std::cmp::Ordering> {
        match self.hi.partial_cmp(&o.hi) {
            Some(std::cmp::Ordering::Equal) => self.lo.partial_cmp(&o.lo),
            x => x,
        }
    }
}

binop!(DD, Add, add, |a: &DD, b: &DD| DD::add_dd(a, b));
binop!(DD, Sub, sub, |a: &DD, b: &DD| DD::add_dd(a, &DD::neg_dd(b)));
binop!(DD, Mul, mul, |a: &DD, b: &DD| DD::mul_dd(a, b));
binop!(DD, Div, div, |a: &DD, b: &DD| DD::div_dd(a, b));

impl Neg for DD {
    type Output = DD;
    fn neg(self) -> DD {
        DD::neg_dd(&self)
    }
}
impl<'a> Neg for &'a DD {
    type Output = DD;
    fn neg(self) -> DD {
        DD::neg_dd(self)
    }
}
impl<'a> AddAssign<&'a DD> for DD {
    fn add_assign(&mut self, o: &'a DD) {
        *self = DD::add_dd(self, o);
    }
}
impl<'a> SubAssign<&'a DD> for DD {
    fn sub_assign(&mut self, o: &'a DD) {
        *self = DD::add_dd(self, &DD::neg_dd(o));
    }
}
impl<'a> MulAssign<&'a DD> for DD {
    fn mul_assign(&mut self, o: &'a DD) {
        *self = DD::mul_dd(self, o);
    }
}

thread_local! {
    /// count of narrowing calls made on DD values (must stay 0 inside the matrix routine)
    pub static DD_NARROW: RefCell<u64> = const { RefCell::new(0) };
    /// lenient mode: transcendental methods are evaluated in f64 on the high part instead of panicking
    /// (used where only the comparisons of the generic code matter, e.g. edge selection)
    pub static DD_LENIENT: RefCell<bool> = const { RefCell::new(false) };
}

thread_local! {
    /// accurate mode: ln / exp / powf are evaluated in double-double arithmetic (sin / cos still through f64)
    pub static DD_ACCURATE: RefCell<bool> = const { RefCell::new(false) };
}

fn dd_transcendental(name: &str, x: &DD, f: impl Fn(f64) -> f64) -> DD {
    if DD_LENIENT.with(|l| *l.borrow()) || DD_ACCURATE.with(|l| *l.borrow()) {
        DD::from(f(x.hi))
    } else {
        panic!("DD: transcendental {name} not available")
    }
}

const LN2_DD: DD = DD { hi: 0.6931471805599453, lo: 2.3190468138462996e-17 };

impl DD {
    fn scale2(&self, k: i32) -> DD {
        let f = 2f64.powi(k);
        DD { hi: self.hi * f, lo: self.lo * f }
    }
    /// exp in double-double arithmetic: x = k ln2 + r, r/256 by Taylor, 8 squarings
    pub fn exp_dd(x: &DD) -> DD {
        if x.hi.is_nan() {
            return DD::from(f64::NAN);
        }
        if x.hi > 709.0 {
            return DD::from(f64::INFINITY);
        }
        if x.hi < -745.0 {
            return DD::from(0.0);
        }
        let k = (x.hi / LN2_DD.hi).round();
        let r = DD::add_dd(x, &DD::neg_dd(&DD::mul_dd(&LN2_DD, &DD::from(k))));
        let r = r.scale2(-8);
        let mut term = DD::from(1.0);
        let mut sum = DD::from(1.0);
        for n in 1..=14 {
            term = DD::div_dd(&DD::mul_dd(&term, &r), &DD::from(n as f64));
            sum = DD::add_dd(&sum, &term);
        }
        for _ in 0..8 {
            sum = DD::mul_dd(&sum, &sum);
        }
        // 2^k in two steps to stay inside the exponent range
        let k = k as i32;
        sum.scale2(k / 2).scale2(k - k / 2)
    }
    /// ln by Newton on exp: y <- y + x exp(-y) - 1
    pub fn ln_dd(x: &DD) -> DD {
        if !(x.hi > 0.0) {
            return DD::from(if x.hi == 0.0 { f64::NEG_INFINITY } else { f64::NAN });
        }
        if x.hi.is_infinite() {
            return DD::from(f64::INFINITY);
        }
        let mut y = DD::from(x.hi.ln());
        for _ in 0..2 {
            let e = DD::exp_dd(&DD::neg_dd(&y));
            let corr = DD::add_dd(&DD::mul_dd(x, &e), &DD::from(-1.0));
            y = DD::add_dd(&y, &corr);
        }
        y
    }
    /// (sin x, cos x) in double-double arithmetic: x = k pi/2 + r with |r| <= pi/4, Taylor series for r
    pub fn sincos_dd(x: &DD) -> (DD, DD) {
        if !x.hi.is_finite() {
            return (DD::from(f64::NAN), DD::from(f64::NAN));
        }
        // pi/2 to ~107 bits, plus a third part for the reduction
        const PIO2_HI: f64 = 1.5707963267948966;
        const PIO2_LO: f64 = 6.123233995736766e-17;
        const PIO2_LO2: f64 = -1.4973849048591698e-33;
        let k = (x.hi / PIO2_HI).round();
        let kk = DD::from(k);
        let mut r = DD::add_dd(x, &DD::neg_dd(&DD::mul_dd(&DD { hi: PIO2_HI, lo: PIO2_LO }, &kk)));
        r = DD::add_dd(&r, &DD::from(-k * PIO2_LO2));
        let r2 = DD::mul_dd(&r, &r);
        // sin r = r - r^3/3! + ..., cos r = 1 - r^2/2! + ...
        let mut sin = r;
        let mut cos = DD::from(1.0);
        let mut ts = r;
        let mut tc = DD::from(1.0);
        for n in 1..=16 {
            let a = (2 * n) as f64;
            tc = DD::neg_dd(&DD::div_dd(&DD::mul_dd(&tc, &r2), &DD::from(a * (a - 1.0))));
            cos = DD::add_dd(&cos, &tc);
            ts = DD::neg_dd(&DD::div_dd(&DD::mul_dd(&ts, &r2), &DD::from(a * (a + 1.0))));
            sin = DD::add_dd(&sin, &ts);
        }
        match ((k as i64) % 4 + 4) % 4 {
            0 => (sin, cos),
            1 => (cos, DD::neg_dd(&sin)),
            2 => (DD::neg_dd(&sin), DD::neg_dd(&cos)),
            _ => (DD::neg_dd(&cos), sin),
        }
    }
    pub fn pow_dd(x: &DD, p: &DD) -> DD {
        if x.hi == 0.0 {
            return DD::from(if p.hi > 0.0 { 0.0 } else if p.hi == 0.0 { 1.0 } else { f64::INFINITY });
        }
        DD::exp_dd(&DD::mul_dd(p, &DD::ln_dd(x)))
    }
}

fn dd_accurate() -> bool {
    DD_ACCURATE.with(|l| *l.borrow())
}

impl MomTropFloat for DD {
    fn one(&self) -> Self {
        DD::from(1.0)
    }
    fn zero(&self) -> Self {
        DD::from(0.0)
    }
    #[allow(non_snake_case)]
    fn PI(&self) -> Self {
        DD { hi: std::f64::consts::PI, lo: 1.2246467991473532e-16 }
    }
    fn ln(&self) -> Self {
        if dd_accurate() {
            return DD::ln_dd(self);
        }
        dd_transcendental("ln", self, f64::ln)
    }
    fn exp(&self) -> Self {
        if dd_accurate() {
            return DD::exp_dd(self);
        }
        dd_transcendental("exp", self, f64::exp)
    }
    fn cos(&self) -> Self {
        if dd_accurate() {
            return DD::sincos_dd(self).1;
        }
        dd_transcendental("cos", self, f64::cos)
    }
    fn sin(&self) -> Self {
        if dd_accurate() {
            return DD::sincos_dd(self).0;
        }
        dd_transcendental("sin", self, f64::sin)
    }
    fn powf(&self, p: &Self) -> Self {
        if dd_accurate() {
            return DD::pow_dd(self, p);
        }
        let e = p.hi;
        dd_transcendental("powf", self, move |x| f64::powf(x, e))
    }
    fn sqrt(&self) -> Self {
        DD::sqrt_dd(self)
    }
    fn abs(&self) -> Self {
        if self.hi < 0.0 {
            DD::neg_dd(self)
        } else {
            *self
        }
    }
    fn inv(&self) -> Self {
        DD::div_dd(&DD::from(1.0), self)
    }
    fn from_isize(&self, value: isize) -> Self {
        DD::from(value as f64)
    }
    fn from_f64(&self, value: f64) -> Self {
        DD::from(value)
    }
    fn to_f64(&self) -> f64 {
        DD_NARROW.with(|c| *c.borrow_mut() += 1);
        self.hi
    }
}

pub fn dd_to_q(d: &DD) -> Option<oracle::Q> {
    Some(oracle::num::qf_opt(d.hi)? + oracle::num::qf_opt(d.lo)?)
}


#[cfg(test)]
mod tests {
    use super::*;
    #[test]
    fn dd_exp_ln_roundtrip() {
        for x in [0.3, 1.0, 2.5, 1e-8, 123.456, 1e-200, 7e150] {
            let d = DD::from(x);
            let l = DD::ln_dd(&d);
            let e = DD::exp_dd(&l);
            let diff = DD::add_dd(&e, &DD::neg_dd(&d));
            assert!((diff.hi / x).abs() < 1e-29, "{x}: {:e}", diff.hi / x);
        }
        // exp(1)
        let e1 = DD::exp_dd(&DD::from(1.0));
        assert!((e1.hi - std::f64::consts::E).abs() < 1e-15);
        assert!((e1.lo - 1.4456468917292502e-16).abs() < 1e-30, "{:e}", e1.lo);
        // (x^p)^(1/p) = x
        let x = DD { hi: 0.37, lo: 1e-18 };
        let p = DD::from(1.0 / 3.0);
        let y = DD::pow_dd(&DD::pow_dd(&x, &p), &DD::div_dd(&DD::from(1.0), &p));
        let diff = DD::add_dd(&y, &DD::neg_dd(&x));
        assert!(diff.hi.abs() < 1e-29, "{:e}", diff.hi);
    }
}
