//! A third self-describing, f64-exact serde format for C18: like JSON's value tree, but structs are written
//! POSITIONALLY (as sequences, the way MessagePack does by default). Reading goes through serde_json's `Value`
//! deserializer, whose `deserialize_struct` accepts an array and drives the type's `visit_seq`.
use serde::ser::{self, Serialize};
use serde_json::{Map, Number, Value};

#[derive(Debug)]
pub struct Error(pub String);
impl std::fmt::Display for Error {
    fn fmt(&self, f: &mut std::fmt::Formatter) -> std::fmt::Result {
        write!(f, "{}", self.0)
    }
}
impl std::error::Error for Error {}
impl ser::Error for Error {
    fn custom<T: std::fmt::Display>(msg: T) -> Self {
        Error(msg.to_string())
    }
}

pub struct Ser;

pub fn to_seq_value<T: Serialize>(t: &T) -> Result<Value, Error> {
    t.serialize(Ser)
}

pub fn from_seq_value<T: serde::de::DeserializeOwned>(v: Value) -> Result<T, String> {
    T::deserialize(v).map_err(|e| e.to_string())
}

pub struct SeqAcc(Vec<Value>);
pub struct MapAcc(Map<String, Value>, Option<String>);

impl ser::Serializer for Ser {
    type Ok = Value;
    type Error = Error;
    type SerializeSeq = SeqAcc;
    type SerializeTuple = SeqAcc;
    type SerializeTupleStruct = SeqAcc;
    type SerializeTupleVariant = SeqAcc;
    type SerializeMap = MapAcc;
    type SerializeStruct = SeqAcc;
    type SerializeStructVariant = SeqAcc;

    fn serialize_bool(self, v: bool) -> Result<Value, Error> {
        Ok(Value::Bool(v))
    }
    fn serialize_i8(self, v: i8) -> Result<Value, Error> {
        Ok(Value::Number(v.into()))
    }
    fn serialize_i16(self, v: i16) -> Result<Value, Error> {
        Ok(Value::Number(v.into()))
    }
    fn serialize_i32(self, v: i32) -> Result<Value, Error> {
        Ok(Value::Number(v.into()))
    }
    fn serialize_i64(self, v: i64) -> Result<Value, Error> {
        Ok(Value::Number(v.into()))
    }
    fn serialize_u8(self, v: u8) -> Result<Value, Error> {
        Ok(Value::Number(v.into()))
    }
    fn serialize_u16(self, v: u16) -> Result<Value, Error> {
        Ok(Value::Number(v.into()))
    }
    fn serialize_u32(self, v: u32) -> Result<Value, Error> {
        Ok(Value::Number(v.into()))
    }
    fn serialize_u64(self, v: u64) -> Result<Value, Error> {
        Ok(Value::Number(v.into()))
    }
    fn serialize_f32(self, v: f32) -> Result<Value, Error> {
        self.serialize_f64(v as f64)
    }
    fn serialize_f64(self, v: f64) -> Result<Value, Error> {
        Ok(Number::from_f64(v).map(Value::Number).unwrap_or(Value::Null))
    }
    fn serialize_char(self, v: char) -> Result<Value, Error> {
        Ok(Value::String(v.to_string()))
    }
    fn serialize_str(self, v: &str) -> Result<Value, Error> {
        Ok(Value::String(v.to_string()))
    }
    fn serialize_bytes(self, v: &[u8]) -> Result<Value, Error> {
        Ok(Value::Array(v.iter().map(|b| Value::Number((*b).into())).collect()))
    }
    fn serialize_none(self) -> Result<Value, Error> {
        Ok(Value::Null)
    }
    fn serialize_some<T: ?Sized + Serialize>(self, v: &T) -> Result<Value, Error> {
        v.serialize(Ser)
    }
    fn serialize_unit(self) -> Result<Value, Error> {
        Ok(Value::Null)
    }
    fn serialize_unit_struct(self, _n: &'static str) -> Result<Value, Error> {
        Ok(Value::Null)
    }
    fn serialize_unit_variant(self, _n: &'static str, _i: u32, variant: &'static str) -> Result<Value, Error> {
        Ok(Value::String(variant.to_string()))
    }
    fn serialize_newtype_struct<T: ?Sized + Serialize>(self, _n: &'static str, v: &T) -> Result<Value, Error> {
        v.serialize(Ser)
    }
    fn serialize_newtype_variant<T: ?Sized + Serialize>(self, _n: &'static str, _i: u32, variant: &'static str, v: &T) -> Result<Value, Error> {
        let mut m = Map::new();
        m.insert(variant.to_string(), v.serialize(Ser)?);
        Ok(Value::Object(m))
    }
    fn serialize_seq(self, len: Option<usize>) -> Result<SeqAcc, Error> {
        Ok(SeqAcc(Vec::with_capacity(len.unwrap_or(0))))
    }
    fn serialize_tuple(self, len: usize) -> Result<SeqAcc, Error> {
        Ok(SeqAcc(Vec::with_capacity(len)))
    }
    fn serialize_tuple_struct(self, _n: &'static str, len: usize) -> Result<SeqAcc, Error> {
        Ok(SeqAcc(Vec::with_capacity(len)))
    }
    fn serialize_tuple_variant(self, _n: &'static str, _i: u32, _v: &'static str, len: usize) -> Result<SeqAcc, Error> {
        Ok(SeqAcc(Vec::with_capacity(len)))
    }
    fn serialize_map(self, _len: Option<usize>) -> Result<MapAcc, Error> {
        Ok(MapAcc(Map::new(), None))
    }
    /// structs are written positionally
    fn serialize_struct(self, _n: &'static str, len: usize) -> Result<SeqAcc, Error> {
        Ok(SeqAcc(Vec::with_capacity(len)))
    }
    fn serialize_struct_variant(self, _n: &'static str, _i: u32, _v: &'static str, len: usize) -> Result<SeqAcc, Error> {
        Ok(SeqAcc(Vec::with_capacity(len)))
    }
}

macro_rules! seq_like {
    ($tr:path, $m:ident) => {
        impl $tr for SeqAcc {
            type Ok = Value;
            type Error = Error;
            fn $m<T: ?Sized + Serialize>(&mut self, v: &T) -> Result<(), Error> {
                self.0.push(v.serialize(Ser)?);
                Ok(())
            }
            fn end(self) -> Result<Value, Error> {
                Ok(Value::Array(self.0))
            }
        }
    };
}
seq_like!(ser::SerializeSeq, serialize_element);
seq_like!(ser::SerializeTuple, serialize_element);
seq_like!(ser::SerializeTupleStruct, serialize_field);
seq_like!(ser::SerializeTupleVariant, serialize_field);

impl ser::SerializeStruct for SeqAcc {
    type Ok = Value;
    type Error = Error;
    fn serialize_field<T: ?Sized + Serialize>(&mut self, _k: &'static str, v: &T) -> Result<(), Error> {
        self.0.push(v.serialize(Ser)?);
        Ok(())
    }
    fn end(self) -> Result<Value, Error> {
        Ok(Value::Array(self.0))
    }
}
impl ser::SerializeStructVariant for SeqAcc {
    type Ok = Value;
    type Error = Error;
    fn serialize_field<T: ?Sized + Serialize>(&mut self, _k: &'static str, v: &T) -> Result<(), Error> {
        self.0.push(v.serialize(Ser)?);
        Ok(())
    }
    fn end(self) -> Result<Value, Error> {
        Ok(Value::Array(self.0))
    }
}
impl ser::SerializeMap for MapAcc {
    type Ok = Value;
    type Error = Error;
    fn serialize_key<T: ?Sized + Serialize>(&mut self, k: &T) -> Result<(), Error> {
        self.1 = Some(match k.serialize(Ser)? {
            Value::String(s) => s,
            other => other.to_string(),
        });
        Ok(())
    }
    fn serialize_value<T: ?Sized + Serialize>(&mut self, v: &T) -> Result<(), Error> {
        let k = self.1.take().ok_or_else(|| Error("value without key".into()))?;
        self.0.insert(k, v.serialize(Ser)?);
        Ok(())
    }
    fn end(self) -> Result<Value, Error> {
        Ok(Value::Object(self.0))
    }
}
