#!/usr/bin/env bash
# usage: tools/seed_check.sh <patch.diff> <tier> <Cxx> [<Cxx> ...]
# Applies a seeded change to /repo, runs the named checks, and ALWAYS restores /repo afterwards.
set -u
PATCH="$1"; TIER="$2"; shift 2
# SEED_REPO / SEED_VERIF: a shadow copy (git worktree of /repo + copy of /verif whose Cargo.toml points at it) can be used
# while something else (e.g. a long sweep) needs /repo untouched
REPO="${SEED_REPO:-/repo}"; VERIF="${SEED_VERIF:-/verif}"
cd "$REPO" || exit 2
if [ -n "$(git status --porcelain -- src Cargo.toml)" ]; then echo "refusing: /repo has local changes" >&2; exit 2; fi
git apply "$PATCH" || { echo "patch does not apply to /repo" >&2; exit 2; }
trap 'git -C "$REPO" checkout -q -- . ' EXIT
for C in "$@"; do
  OUT=$(cd "$VERIF" && ./check "$C" "$TIER" 2>&1); RC=$?
  NV=$(echo "$OUT" | grep -c "^VIOLATION property=")
  CATS=$(echo "$OUT" | grep "distinct violation keys per category" | sed 's/.*category: //' | head -1)
  LAST=$(echo "$OUT" | grep -E "tier=|MACHINERY|ENGINE" | tail -1 | cut -c1-200)
  echo "{\"check\":\"$C\",\"tier\":\"$TIER\",\"exit\":$RC,\"violation_lines\":$NV,\"categories\":\"$(echo $CATS | sed 's/"/\\"/g')\",\"last\":\"$(echo $LAST | sed 's/"/\\"/g')\"}"
  if [ "$NV" -gt 0 ]; then
    F=$(echo "$OUT" | grep "^VIOLATION property=" | head -1 | sed 's/.*replay=//')
    echo "   first replay: $F"
  fi
done
