//! `table` engine: exhaustive configuration enumeration + complete visit of the 2^E subset lattice
//! of every built sampler (C03, C04, C05).
use crate::common::*;
use crate::obs::*;
use crate::scope::*;
use num_traits::{One, Zero};
use oracle::graph::{j_path_sum, j_table, OGraph};
use oracle::num::*;
use serde_json::{json, Value};

const FX_ONE: i128 = 1i128 << 60;

/// exact fixed-point value of a weight (scale 2^-60); None if not exactly representable
fn fx(w: f64) -> Option<i128> {
    if !w.is_finite() || w.abs() >= 1e6 {
        return None;
    }
    let s = w * (FX_ONE as f64); // exact: multiplication by a power of two
    if s.fract() != 0.0 {
        return None;
    }
    Some(s as i128)
}
fn fx_to_f64(v: i128) -> f64 {
    v as f64 / FX_ONE as f64
}

pub struct Pre {
    pub loops: Vec<u8>,
    pub mms: Vec<bool>,
}

pub fn precompute(g: &OGraph) -> Pre {
    let n = g.full() + 1;
    Pre {
        loops: (0..n).map(|m| g.loop_number(m) as u8).collect(),
        mms: (0..n).map(|m| g.mass_momentum_spanning(m)).collect(),
    }
}

#[derive(Clone, Copy, PartialEq, Debug)]
pub enum Class {
    MustErr,
    MustOk,
    Either,
}

pub struct Exact {
    pub omega: Vec<i128>,
    pub abs_terms: Vec<i128>,
    pub dod: i128,
    pub dod_abs_terms: i128,
    pub class: Class,
    pub has_pos_and_neg: bool,
}

pub fn exact_omegas(g: &OGraph, pre: &Pre) -> Option<Exact> {
    let ne = g.ne();
    let full = g.full();
    let w: Vec<i128> = g.weights.iter().map(|&x| fx(x)).collect::<Option<Vec<_>>>()?;
    let half_d = (g.dim as i128) * (FX_ONE / 2);
    let wsum = |m: usize| -> i128 { (0..ne).filter(|e| m >> e & 1 == 1).map(|e| w[e]).sum() };
    let dod = wsum(full) - half_d * pre.loops[full] as i128;
    let dod_abs = wsum(full) + half_d * pre.loops[full] as i128;
    let mut omega = vec![0i128; full + 1];
    let mut abs_terms = vec![0i128; full + 1];
    omega[0] = FX_ONE;
    abs_terms[0] = FX_ONE;
    for m in 1..=full {
        let base = wsum(m) - half_d * pre.loops[m] as i128;
        let abs = wsum(m) + half_d * pre.loops[m] as i128;
        if pre.mms[m] {
            omega[m] = base - dod;
            abs_terms[m] = abs + dod_abs;
        } else {
            omega[m] = base;
            abs_terms[m] = abs;
        }
    }
    let eps = (1e-9 * FX_ONE as f64) as i128;
    let mut any_neg = false;
    let mut all_pos = true;
    let mut pos = false;
    let mut neg = false;
    for m in 1..full {
        if omega[m] <= -eps {
            any_neg = true;
        }
        if omega[m] < eps {
            all_pos = false;
        }
        if omega[m] > 0 {
            pos = true;
        }
        if omega[m] <= 0 {
            neg = true;
        }
    }
    let class = if any_neg {
        Class::MustErr
    } else if all_pos {
        Class::MustOk
    } else {
        Class::Either
    };
    Some(Exact {
        omega,
        abs_terms,
        dod,
        dod_abs_terms: dod_abs,
        class,
        has_pos_and_neg: pos && neg,
    })
}

fn dyadic_small(g: &OGraph) -> bool {
    g.weights.iter().all(|&w| (w * 4.0).fract() == 0.0 && w.abs() < 64.0)
}

pub fn nontrivial_c03(g: &OGraph, pre: &Pre) -> bool {
    let ne = g.ne();
    let has_m = g.massive.iter().any(|&m| m);
    let has_nm = g.massive.iter().any(|&m| !m);
    let selfloop = g.edges.iter().any(|&(a, b)| a == b);
    let multi_comp = (1..=g.full()).any(|m| {
        // ≥2 components: loops - edges + vertices
        let e = (m as usize).count_ones() as usize;
        let v = g.vertices(m).len();
        pre.loops[m] as usize + v - e >= 2
    });
    let ext_untouched = g
        .externals
        .iter()
        .any(|x| (0..ne).any(|e| g.edges[e].0 != *x && g.edges[e].1 != *x));
    (has_m && has_nm) || selfloop || multi_comp || ext_untouched
}

#[derive(Clone, Copy)]
pub struct Judge {
    pub c03: bool,
    pub c04: bool,
    pub c05: bool,
}

fn case_json(g: &OGraph, extra: Value) -> Value {
    json!({"engine": "table", "graph": graph_json(g), "extra": extra})
}

fn gkey(g: &OGraph) -> String {
    format!("{:016x}", fnv(&graph_json(g).to_string()))
}

/// One configuration: build with the real code, walk the whole lattice. Returns true if the build was Ok.
pub fn check_config(g: &OGraph, pre: &Pre, judge: Judge, acc: &mut Acc, path_sum_max_e: usize) -> bool {
    let ne = g.ne();
    let full = g.full();
    let ex = match exact_omegas(g, pre) {
        Some(e) => e,
        None => {
            acc.inc("skipped_weight_not_fixed_point");
            return false;
        }
    };
    acc.inc("builds");
    if ex.has_pos_and_neg || ex.class == Class::Either {
        acc.inc("c05_nontrivial");
    }
    let out = build(g, &dummy_sig(g));
    let sampler = match out {
        BuildOutcome::Panicked(msg) => {
            acc.inc("build_panics");
            if judge.c05 {
                acc.violate(
                    format!("C05/build-panic/{}", gkey(g)),
                    "no-panic",
                    format!("build_sampler panicked: {msg}"),
                    case_json(g, json!({"observed": "panic", "message": msg})),
                );
            }
            return false;
        }
        BuildOutcome::Rejected(msg) => {
            acc.inc("rejected");
            match ex.class {
                Class::MustOk => {
                    acc.inc("class_must_ok");
                    if judge.c05 {
                        let min = (1..full).map(|m| ex.omega[m]).min().unwrap_or(FX_ONE);
                        acc.violate(
                            format!("C05/rejected-but-convergent/{}", gkey(g)),
                            "iff(<=)",
                            format!(
                                "all proper subsets have omega >= 1e-9 (min {:e}) but build_sampler returned Err: {}",
                                fx_to_f64(min),
                                msg.lines().next().unwrap_or("")
                            ),
                            case_json(g, json!({"expected": "Ok", "observed": "Err"})),
                        );
                    }
                }
                Class::MustErr => acc.inc("class_must_err"),
                Class::Either => acc.inc("class_either"),
            }
            return false;
        }
        BuildOutcome::Ok(s) => s,
    };
    acc.inc("accepted");
    match ex.class {
        Class::MustErr => {
            acc.inc("class_must_err");
            if judge.c05 {
                let (m, w) = (1..full).map(|m| (m, ex.omega[m])).min_by_key(|x| x.1).unwrap();
                acc.violate(
                    format!("C05/accepted-but-divergent/{}", gkey(g)),
                    "iff(=>)",
                    format!("subset {m:#b} has omega = {:e} <= -1e-9 but build_sampler returned Ok", fx_to_f64(w)),
                    case_json(g, json!({"expected": "Err", "observed": "Ok", "subset": m})),
                );
            }
        }
        Class::MustOk => acc.inc("class_must_ok"),
        Class::Either => acc.inc("class_either"),
    }
    let obs = match sampler.observe() {
        Ok(o) => o,
        Err(e) => {
            acc.inc("table_unobservable");
            if judge.c05 {
                acc.violate(
                    format!("C05/non-finite-table/{}", gkey(g)),
                    "J finite and positive",
                    format!("accepted sampler holds a non-finite value (serde rendering failed: {e})"),
                    case_json(g, json!({"observed": e})),
                );
            }
            return true;
        }
    };
    let t = &obs.table;
    if t.table.len() != full + 1 {
        let msg = format!("table has {} entries for E = {ne}", t.table.len());
        if judge.c03 {
            acc.violate(format!("C03/table-size/{}", gkey(g)), "table size", msg, case_json(g, json!({})));
        }
        return true;
    }
    // ---------------- C05: J finite and positive
    if judge.c05 {
        for (m, e) in t.table.iter().enumerate() {
            if !(e.j_function.is_finite() && e.j_function > 0.0) {
                acc.violate(
                    format!("C05/J-not-positive/{}/{m}", gkey(g)),
                    "J finite and positive",
                    format!("accepted sampler has J({m:#b}) = {:e}", e.j_function),
                    case_json(g, json!({"subset": m, "J": jf(e.j_function)})),
                );
                break;
            }
        }
    }
    // ---------------- C03: every state of the lattice
    if judge.c03 {
        let dy = dyadic_small(g);
        for m in 0..=full {
            acc.inc("states");
            let e = &t.table[m];
            if e.loop_number != pre.loops[m] {
                acc.violate(
                    format!("C03/loop_number/{}/{m}", gkey(g)),
                    "loop number",
                    format!("subset {m:#b}: table loop_number {} but cyclomatic number is {}", e.loop_number, pre.loops[m]),
                    case_json(g, json!({"subset": m, "expected": pre.loops[m], "observed": e.loop_number})),
                );
            }
            if e.mass_momentum_spanning != pre.mms[m] {
                acc.violate(
                    format!("C03/mms/{}/{m}", gkey(g)),
                    "mass-momentum spanning",
                    format!("subset {m:#b}: table flag {} but definition gives {}", e.mass_momentum_spanning, pre.mms[m]),
                    case_json(g, json!({"subset": m, "expected": pre.mms[m], "observed": e.mass_momentum_spanning})),
                );
            }
            let want = fx_to_f64(ex.omega[m]);
            let scale = fx_to_f64(ex.abs_terms[m]);
            let got = e.generalized_dod;
            let ok = if dy { got == want } else { (got - want).abs() <= 1e-12 * scale };
            if !ok {
                acc.violate(
                    format!("C03/generalized_dod/{}/{m}", gkey(g)),
                    "generalised dod",
                    format!("subset {m:#b}: table omega {got:e} but exact value is {want:e}"),
                    case_json(g, json!({"subset": m, "expected": jf(want), "observed": jf(got)})),
                );
            }
            acc.max("omega_err_units_1e-12", if scale > 0.0 { (got - want).abs() / (1e-12 * scale) } else { 0.0 });
        }
        // transitions: monotonicity invariants of the implementation's own table
        for m in 1..=full {
            for e in 0..ne {
                if m >> e & 1 == 1 {
                    acc.inc("transitions");
                    let h = m ^ (1 << e);
                    let dl = t.table[m].loop_number as i32 - t.table[h].loop_number as i32;
                    if !(dl == 0 || dl == 1) {
                        acc.violate(
                            format!("C03/loop-monotone/{}/{m}/{e}", gkey(g)),
                            "lattice invariant: loop number drops by 0 or 1",
                            format!("loop_number({m:#b}) - loop_number({h:#b}) = {dl}"),
                            case_json(g, json!({"subset": m, "edge": e})),
                        );
                    }
                    if t.table[h].mass_momentum_spanning && !t.table[m].mass_momentum_spanning {
                        acc.violate(
                            format!("C03/mms-monotone/{}/{m}/{e}", gkey(g)),
                            "lattice invariant: spanning flag is monotone",
                            format!("mms({h:#b}) but not mms({m:#b})"),
                            case_json(g, json!({"subset": m, "edge": e})),
                        );
                    }
                }
            }
        }
        // global quantities
        let tg = &t.tropical_graph;
        let want_dod = fx_to_f64(ex.dod);
        let dod_ok = |got: f64| {
            if dy {
                got == want_dod
            } else {
                (got - want_dod).abs() <= 1e-12 * fx_to_f64(ex.dod_abs_terms)
            }
        };
        let mut glob = |clause: &str, ok: bool, what: String| {
            if !ok {
                acc.violate(format!("C03/{clause}/{}", gkey(g)), clause, what, case_json(g, json!({})));
            }
        };
        glob("dod", dod_ok(tg.dod), format!("table dod {:e}, exact {:e}", tg.dod, want_dod));
        glob("get_dod", dod_ok(sampler.get_dod()), format!("get_dod {:e}, exact {:e}", sampler.get_dod(), want_dod));
        glob("num_loops", tg.num_loops == pre.loops[full] as usize, format!("num_loops {} vs {}", tg.num_loops, pre.loops[full]));
        let nm = g.massive.iter().filter(|&&m| m).count();
        glob("num_massive_edges", tg.num_massive_edges == nm, format!("num_massive_edges {} vs {nm}", tg.num_massive_edges));
        glob("dimension-field", t.dimension == g.dim, format!("dimension {} vs {}", t.dimension, g.dim));
        glob("externals-echo", tg.external_vertices == g.externals, format!("externals {:?} vs {:?}", tg.external_vertices, g.externals));
        let topo_ok = tg.topology.len() == ne
            && tg.topology.iter().enumerate().all(|(i, e)| {
                e.edge_id as usize == i
                    && (e.left, e.right) == g.edges[i]
                    && e.weight.to_bits() == g.weights[i].to_bits()
                    && e.is_massive == g.massive[i]
            });
        glob("topology-echo", topo_ok, "stored topology differs from input".into());
        glob("get_num_edges", sampler.get_num_edges() == ne, format!("get_num_edges {} vs {ne}", sampler.get_num_edges()));
        let ws = sampler.edge_weights();
        glob(
            "iter_edge_weights",
            ws.len() == ne && ws.iter().zip(&g.weights).all(|(a, b)| a.to_bits() == b.to_bits()),
            format!("iter_edge_weights {:?} vs {:?}", ws, g.weights),
        );
        let want_dim = g.hypercube_dim();
        match sampler.get_dimension() {
            Ok(d) => glob("get_dimension", d == want_dim, format!("get_dimension {d} vs 2E-1+DL+(DL mod 2) = {want_dim}")),
            Err(p) => glob("get_dimension", false, format!("get_dimension panicked: {p}")),
        }
    }
    // ---------------- C04: J recursion on every transition, path sum, normalisation
    if judge.c04 {
        let tau = 2f64.powi(-52) * 2f64.powi(14);
        let finite = t.table.iter().all(|e| e.generalized_dod.is_finite() && e.j_function.is_finite());
        let proper_nonzero = (1..full).all(|m| t.table[m].generalized_dod != 0.0);
        if finite && proper_nonzero {
            // exact recursion from the implementation's own omegas
            let om: Vec<Q> = t.table.iter().map(|e| qf(e.generalized_dod)).collect();
            let mut om_rec = om.clone();
            om_rec[0] = Q::one(); // J recursion divides by ω(∅) = 1 by definition
            let j = j_table(ne, &om_rec);
            if t.table[0].j_function != 1.0 {
                acc.violate(
                    format!("C04/J-empty/{}", gkey(g)),
                    "J(empty)=1",
                    format!("J(empty) = {:e}", t.table[0].j_function),
                    case_json(g, json!({})),
                );
            }
            if t.table[0].generalized_dod != 1.0 {
                acc.violate(
                    format!("C04/omega-empty/{}", gkey(g)),
                    "omega(empty)=1",
                    format!("omega(empty) = {:e}", t.table[0].generalized_dod),
                    case_json(g, json!({})),
                );
            }
            for m in 1..=full {
                acc.inc("states");
                let got = qf(t.table[m].j_function);
                let err = rel_err(&got, &j[m]);
                acc.max("J_err_units_tau", err / tau);
                if !(err <= tau) {
                    acc.violate(
                        format!("C04/J-recursion/{}/{m}", gkey(g)),
                        "J(g) = sum_e J(g\\e)/omega(g\\e)",
                        format!("subset {m:#b}: J = {:e}, exact recursion gives {:e} (rel err {err:e})", t.table[m].j_function, q_to_f64(&j[m])),
                        case_json(g, json!({"subset": m, "expected": jf(q_to_f64(&j[m])), "observed": jf(t.table[m].j_function)})),
                    );
                }
                // transitions out of m: probabilities positive, summing to one
                let mut sum_exact = Q::zero();
                let mut sum_f = 0.0f64;
                let mut all_pos = true;
                for e in 0..ne {
                    if m >> e & 1 == 1 {
                        acc.inc("transitions");
                        let h = m ^ (1 << e);
                        let p = &j[h] / (&j[m] * &om_rec[h]);
                        if p <= Q::zero() {
                            all_pos = false;
                        }
                        sum_exact += p;
                        let pf = t.table[h].j_function / t.table[m].j_function / if h == 0 { 1.0 } else { t.table[h].generalized_dod };
                        if !(pf > 0.0) {
                            all_pos = false;
                        }
                        sum_f += pf;
                    }
                }
                if !all_pos || sum_exact != Q::one() || !((sum_f - 1.0).abs() <= 1e-12) {
                    acc.violate(
                        format!("C04/probabilities/{}/{m}", gkey(g)),
                        "edge probabilities positive and summing to one",
                        format!("subset {m:#b}: positive={all_pos} exact sum={} f64 sum={sum_f:e}", q_to_f64(&sum_exact)),
                        case_json(g, json!({"subset": m})),
                    );
                }
            }
            if ne <= path_sum_max_e {
                let ps = j_path_sum(ne, &om_rec);
                acc.inc("path_sums");
                let mut paths = 1u64;
                for k in 1..=ne as u64 {
                    paths *= k;
                }
                acc.add("maximal_paths", paths);
                let got = qf(t.table[full].j_function);
                let err = rel_err(&got, &ps);
                if !(err <= tau) {
                    acc.violate(
                        format!("C04/path-sum/{}", gkey(g)),
                        "J(full) = sum over E! orderings",
                        format!("J(full) = {:e}, sum over orderings = {:e}", t.table[full].j_function, q_to_f64(&ps)),
                        case_json(g, json!({"expected": jf(q_to_f64(&ps)), "observed": jf(t.table[full].j_function)})),
                    );
                }
            }
            // normalisation, from the implementation's own dod and J(full) (each checked separately)
            let dod = t.tropical_graph.dod;
            let frac = (dod - dod.round()).abs();
            let positive = dod >= 1e-9;
            let neg_ok = dod <= -1e-9 && frac > 0.05;
            if positive || neg_ok {
                let mut den = 1.0;
                for &w in &g.weights {
                    den *= oracle::special::gamma(w);
                }
                let want = t.table[full].j_function * oracle::special::gamma(dod) / den
                    * libm::pow(std::f64::consts::PI, (g.dim * pre.loops[full] as usize) as f64 / 2.0);
                let tol = if positive { 1e-11 } else { 1e-9 };
                let err = ((t.cached_factor - want) / want).abs();
                acc.inc("normalisations_checked");
                acc.max("normalisation_err_units_tol", err / tol);
                if !(err <= tol) && want.is_finite() {
                    acc.violate(
                        format!("C04/normalisation/{}", gkey(g)),
                        "normalisation = J(full) Gamma(dod)/prod Gamma(w) pi^(DL/2)",
                        format!("cached_factor = {:e}, expected {:e} (rel err {err:e})", t.cached_factor, want),
                        case_json(g, json!({"expected": jf(want), "observed": jf(t.cached_factor)})),
                    );
                }
            } else {
                acc.inc("normalisation_skipped_dod_not_positive");
            }
        } else {
            acc.inc("c04_skipped_nonfinite_or_zero_omega");
        }
    }
    true
}

pub struct TableScope {
    /// (shape, external alphabet)
    pub shapes: Vec<(Vec<(u8, u8)>, Vec<Vec<u8>>)>,
    pub weights: Vec<f64>,
    pub dims: Vec<usize>,
    pub add_big_weight: bool,
    pub desc: Value,
}

fn relabel(s: &[(u8, u8)], map: &[u8]) -> Vec<(u8, u8)> {
    s.iter().map(|&(a, b)| (map[a as usize], map[b as usize])).collect()
}

pub fn scope_for(tier: Tier, prop: &str) -> TableScope {
    let labels = [0u8, 1, 2];
    let ext = external_alphabet(&labels, 7);
    let map = [255u8, 0, 128];
    let ext_rel: Vec<Vec<u8>> = ext
        .iter()
        .map(|x| x.iter().map(|&v| if v == 7 { 7 } else { map[v as usize] }).collect())
        .collect();
    let mut shapes = vec![];
    let max_e_small = 3;
    for ne in 1..=max_e_small {
        for s in ordered_pair_shapes(&labels, ne) {
            // relabelled copies: all for E <= 2, every 7th shape for E = 3 in the quick tier
            shapes.push((s.clone(), ext.clone()));
        }
    }
    let mut rel = vec![];
    for (i, (s, _)) in shapes.iter().enumerate() {
        if tier == Tier::Thorough || s.len() <= 2 || i % 7 == 0 {
            rel.push((relabel(s, &map), ext_rel.clone()));
        }
    }
    shapes.extend(rel);
    // labels that collide under mod-64 / mod-128 bit tricks
    let map2 = [5u8, 69, 133];
    let ext_rel2: Vec<Vec<u8>> = ext
        .iter()
        .map(|x| x.iter().map(|&v| if v == 7 { 7 } else { map2[v as usize] }).collect())
        .collect();
    let mut rel2 = vec![];
    for (i, (s, _)) in shapes.iter().enumerate() {
        if s.iter().all(|&(a, b)| a <= 2 && b <= 2) && (tier == Tier::Thorough || s.len() <= 2 || i % 11 == 0) {
            rel2.push((relabel(s, &map2), ext_rel2.clone()));
        }
    }
    shapes.extend(rel2);
    let mut desc = json!({
        "G-small": {"labels": [0,1,2], "pairs": "ordered incl. self-loops", "max_edges": max_e_small,
                    "externals": "all subsets + [7] untouched + [0,0] duplicate", "relabelled": "{0,1,2}->{255,0,128}"},
    });
    // G-mid: 4 labels, unordered pairs, E = 4 (thorough; quick takes every 9th shape)
    let labels4 = [0u8, 1, 2, 3];
    let ext4: Vec<Vec<u8>> = external_alphabet(&labels4, 9).into_iter().collect();
    let mid = unordered_pair_shapes(&labels4, 4);
    let stride = tier.pick(173, 6);
    let mut nmid = 0;
    for (i, s) in mid.into_iter().enumerate() {
        if i % stride == 0 {
            shapes.push((s, ext4.clone()));
            nmid += 1;
        }
    }
    desc["G-mid"] = json!({"labels": [0,1,2,3], "pairs": "unordered incl. self-loops (10)", "edges": 4, "shapes_taken": nmid, "stride": stride});
    let _ = prop;
    TableScope {
        shapes,
        weights: tier.pick(W3.to_vec(), W6.to_vec()),
        dims: vec![1, 2, 3, 4, 5, 6],
        add_big_weight: true,
        desc,
    }
}

pub fn run(ctx: &Ctx) -> i32 {
    let judge = Judge {
        c03: ctx.prop == "C03",
        c04: ctx.prop == "C04",
        c05: ctx.prop == "C05",
    };
    let sc = scope_for(ctx.tier, &ctx.prop);
    let tier = ctx.tier;
    let n = sc.shapes.len();
    let mut acc = par_for(n, |i, acc| {
        let (shape, exts) = &sc.shapes[i];
        let ne = shape.len();
        // G-mid uses a 2-element weight alphabet to stay enumerable
        let alpha: Vec<f64> = if ne >= 4 || (ne == 3 && tier == Tier::Quick) { vec![0.75, 2.0 / 3.0] } else { sc.weights.clone() };
        let was = weight_assignments(&alpha, ne);
        for massive in mass_patterns(ne) {
            for ext in exts {
                let g0 = mk(shape, &massive, &vec![1.0; ne], ext, 4);
                let pre = precompute(&g0);
                let nt = nontrivial_c03(&g0, &pre);
                // D = 1..6 everywhere; graphs with one or two edges also in D = 7..11
                let dims: Vec<usize> = if ne <= 2 { (1..=11).collect() } else { sc.dims.clone() };
                for &d in &dims {
                    let mut wlist = was.clone();
                    if sc.add_big_weight {
                        // an extreme weight hierarchy (ratio 2^60): tiny but positive, finite weights are legal
                        if ne >= 2 && ne <= 3 {
                            for k in 0..ne {
                                wlist.push((0..ne).map(|e| if e == k { 2f64.powi(-60) } else { 1.0 }).collect());
                            }
                        }
                        wlist.push(vec![d as f64; ne]);
                        wlist.push((0..ne).map(|e| d as f64 / 2.0 + 0.25 * (e as f64 + 1.0)).collect());
                    }
                    for w in &wlist {
                        let g = mk(shape, &massive, w, ext, d);
                        acc.inc("configurations");
                        let ok = check_config(&g, &pre, judge, acc, 7);
                        if ok && nt {
                            acc.inc("accepted_nontrivial");
                        }
                        if nt {
                            acc.inc("nontrivial_configurations");
                        }
                        if ok && acc.samples.len() < 3 && i % 97 == 5 {
                            acc.sample(json!({"graph": graph_json(&g), "outcome": "accepted"}));
                        }
                    }
                }
            }
        }
    });
    // ------------- C05 extras: determinism under all hash orders; larger shapes for the no-panic clause
    let mut extra = serde_json::Map::new();
    // larger shapes (5..10 edges, 12 in the thorough tier) for every property of this engine: beyond 8 edges
    acc.merge(big_shapes_pass(tier, judge));
    if judge.c05 {
        let det = determinism_pass(tier);
        acc.merge(det);
        acc.merge(build_history_pass());
        extra.insert("hash_order_probe".into(), json!(probe_hash_order_control()));
    }
    if acc.samples.is_empty() {
        acc.sample(json!({"note": "no accepted configuration sampled"}));
    }
    let level = "model_checking";
    let (states, transitions) = (acc.get("states"), acc.get("transitions"));
    let fin = Finish {
        level,
        rule: match ctx.prop.as_str() {
            "C03" => "every (shape, mass pattern, externals, D, weights) of the scope is built with the real build_sampler; states = table entries compared with the union-find oracle, transitions = lattice edges g->g\\e on which the monotonicity invariants were checked; non-trivial = mixed masses, or a subset with >=2 components, or a self-loop, or an external not touched by every edge".into(),
            "C04" => "same enumeration; states = subsets whose J was compared with the exact rational recursion, transitions = lattice edges whose selection probability was checked; non-trivial = accepted configurations of the non-trivial C03 class".into(),
            _ => "same enumeration, every build attempt counts; non-trivial = configurations whose proper subsets have both positive and non-positive omega, or an omega within 1e-9 of zero; plus E! hash orders per graph and larger shapes for no-panic".into(),
        },
        states: if judge.c05 { acc.get("builds") } else { states },
        transitions: if judge.c05 { acc.get("hash_order_builds").max(1) } else { transitions },
        traces: acc.get("accepted"),
        evaluations: acc.get("builds"),
        distinct_nontrivial: if judge.c05 { acc.get("c05_nontrivial") } else { acc.get("accepted_nontrivial") },
        exhaustive: true,
        bounds: sc.desc.clone(),
        assumptions: vec![
            "table observed through serde (field names of the pinned version)".into(),
            "weights of the alphabet are exactly representable in 2^-60 fixed point (asserted per configuration)".into(),
        ],
        extra,
    };
    finish(ctx, &acc, fin)
}

/// prove we own hash iteration order: with perm installed, a set of n keys iterates in ascending perm order
pub fn probe_hash_order_control() -> bool {
    use momtrop::verif_hooks::{set_hash_order, HashSet};
    let mut ok = true;
    for n in 1..=6usize {
        for p in all_permutations(n) {
            let mut perm: Vec<u64> = (0..256u64).collect();
            for (k, &v) in p.iter().enumerate() {
                perm[k] = v as u64;
            }
            set_hash_order(Some(perm.clone()));
            let mut s: HashSet<usize> = HashSet::default();
            for k in (0..n).rev() {
                s.insert(k);
            }
            let got: Vec<usize> = s.into_iter().collect();
            let mut want: Vec<usize> = (0..n).collect();
            want.sort_by_key(|&k| perm[k]);
            if got != want {
                ok = false;
            }
        }
    }
    set_hash_order(None);
    ok
}

fn build_fingerprint(g: &OGraph) -> String {
    match build(g, &dummy_sig(g)) {
        BuildOutcome::Ok(s) => {
            let d = s.get_dimension().map(|d| d.to_string()).unwrap_or_else(|p| format!("panic:{p}"));
            format!("Ok:{}:{}", d, s.to_json_string())
        }
        BuildOutcome::Rejected(e) => format!("Err:{e}"),
        BuildOutcome::Panicked(p) => format!("Panic:{p}"),
    }
}

fn determinism_pass(tier: Tier) -> Acc {
    use momtrop::verif_hooks::set_hash_order;
    let labels = [0u8, 1, 2];
    let ext = external_alphabet(&labels, 7);
    let mut shapes: Vec<(Vec<(u8, u8)>, Vec<Vec<u8>>)> = vec![];
    for ne in 1..=3 {
        for s in ordered_pair_shapes(&labels, ne) {
            shapes.push((s, ext.clone()));
        }
    }
    let labels4 = [0u8, 1, 2, 3];
    let ext4 = external_alphabet(&labels4, 9);
    for (i, s) in unordered_pair_shapes(&labels4, 4).into_iter().enumerate() {
        if i % tier.pick(41, 3) == 0 {
            shapes.push((s, ext4.clone()));
        }
    }
    if tier == Tier::Thorough {
        let labels5 = [0u8, 1, 2, 3];
        for (i, s) in unordered_pair_shapes(&labels5, 5).into_iter().enumerate() {
            if i % 997 == 0 {
                shapes.push((s, vec![vec![], vec![0, 3], vec![1, 2, 3]]));
            }
        }
    }
    par_for(shapes.len(), |i, acc| {
        let (shape, exts) = &shapes[i];
        let ne = shape.len();
        let perms = all_permutations(ne);
        for massive in mass_patterns(ne) {
            // hash order cannot interact with masses except through which subsets are asked: take 2 patterns for E >= 4
            if ne >= 4 && !(massive.iter().all(|&m| m) || massive.iter().all(|&m| !m)) {
                continue;
            }
            for ext in exts {
                // uniform large weights (accepted), uniform unit weights, and non-associative weights (order of any
                // accumulation over a hash set would show in the last bit of a sum)
                let nonassoc = [1.1, 1.2, 1.3, 0.7, 0.9];
                for (d, ws) in [(4usize, vec![4.0f64; ne]), (3, vec![1.0; ne]), (3, (0..ne).map(|e| nonassoc[e % 5]).collect::<Vec<f64>>()), (2, (0..ne).map(|e| nonassoc[(e + 2) % 5] + 1.0).collect::<Vec<f64>>())] {
                    let g = mk(shape, &massive, &ws, ext, d);
                    set_hash_order(None);
                    let base = build_fingerprint(&g);
                    let again = build_fingerprint(&g);
                    acc.inc("determinism_graphs");
                    if base != again {
                        acc.violate(
                            format!("C05/nondeterministic-production-hasher/{}", gkey(&g)),
                            "deterministic",
                            "two builds with the production hasher differ".into(),
                            case_json(&g, json!({"mode": "double-build"})),
                        );
                    }
                    for p in &perms {
                        let mut perm: Vec<u64> = (0..256u64).map(|k| k + 1000).collect();
                        for (k, &v) in p.iter().enumerate() {
                            perm[k] = v as u64;
                        }
                        set_hash_order(Some(perm));
                        let fpnt = build_fingerprint(&g);
                        set_hash_order(None);
                        acc.inc("hash_order_builds");
                        if fpnt != base {
                            acc.violate(
                                format!("C05/hash-order-dependent/{}", gkey(&g)),
                                "deterministic",
                                format!("build under hash order {p:?} differs from the production build"),
                                case_json(&g, json!({"mode": "hash-order", "order": p})),
                            );
                            break;
                        }
                    }
                }
            }
        }
    })
}

/// "the same graph always yields the identical table" also after OTHER graphs were built on the same thread:
/// every ordered pair (first, second) of a small alphabet of graphs (connected, disconnected, self-loops; equal edge counts
/// with different component structure) is built in a fresh OS thread and the second fingerprint is compared with the one
/// obtained when that graph is the first thing the thread ever builds.
fn build_history_pass() -> Acc {
    let shapes: Vec<Vec<(u8, u8)>> = vec![
        vec![(0, 1), (0, 1)],
        vec![(0, 1), (2, 3)],
        vec![(0, 0), (1, 1)],
        vec![(0, 0), (0, 1)],
        vec![(0, 1), (1, 2), (2, 0)],
        vec![(0, 1), (0, 1), (2, 3)],
        vec![(0, 1), (1, 2), (3, 3)],
        vec![(0, 1), (1, 2), (2, 3)],
        vec![(0, 1), (0, 1), (0, 1)],
        vec![(0, 1), (1, 2), (2, 3), (3, 0)],
        vec![(0, 1), (0, 1), (2, 3), (2, 3)],
        vec![(0, 0), (1, 1), (2, 2), (3, 3)],
        vec![(0, 1), (1, 2), (2, 0), (3, 3)],
    ];
    let mut graphs: Vec<OGraph> = vec![];
    for s in &shapes {
        let ne = s.len();
        graphs.push(mk(s, &vec![true; ne], &vec![3.0; ne], &[], 3));
        graphs.push(mk(s, &(0..ne).map(|e| e == 0).collect::<Vec<bool>>(), &(0..ne).map(|e| 0.7 + 0.3 * e as f64).collect::<Vec<f64>>(), &[s[0].0, s[0].1], 3));
    }
    let fresh = |g: OGraph| -> String { std::thread::spawn(move || build_fingerprint(&g)).join().unwrap_or_else(|_| "thread panicked".into()) };
    let reference: Vec<String> = graphs.iter().map(|g| fresh(g.clone())).collect();
    let n = graphs.len();
    par_for(n, |j, acc| {
        for i in 0..n {
            let (gj, gi) = (graphs[j].clone(), graphs[i].clone());
            let second = std::thread::spawn(move || {
                let _ = build_fingerprint(&gj);
                build_fingerprint(&gi)
            })
            .join()
            .unwrap_or_else(|_| "thread panicked".into());
            acc.inc("build_history_pairs");
            if second != reference[i] {
                acc.violate(
                    format!("C05/build-history/{}/{}", gkey(&graphs[j]), gkey(&graphs[i])),
                    "deterministic: the same graph always yields the identical table",
                    "building this graph after another graph on the same thread gives a different result than building it first".into(),
                    json!({"engine": "table", "graph": graph_json(&graphs[i]), "extra": {"mode": "build-history", "first": graph_json(&graphs[j])}}),
                );
            }
        }
    })
}

fn big_shapes_pass(tier: Tier, judge: Judge) -> Acc {
    let max_e = tier.pick(10, 12);
    let mut shapes: Vec<Vec<(u8, u8)>> = vec![];
    for ne in 5..=max_e {
        // cycle, path, star, complete-multigraph walk, banana, flower, two disjoint cycles
        let n = ne as u8;
        shapes.push((0..n).map(|i| (i, (i + 1) % n)).collect());
        shapes.push((0..n).map(|i| (i, i + 1)).collect());
        shapes.push((0..n).map(|i| (0, i + 1)).collect());
        shapes.push(vec![(0, 1); ne]);
        shapes.push(vec![(3, 3); ne]);
        let h = n / 2;
        let mut two: Vec<(u8, u8)> = (0..h).map(|i| (i, (i + 1) % h)).collect();
        two.extend((0..n - h).map(|i| (100 + i, 100 + (i + 1) % (n - h))));
        shapes.push(two);
        let mut k4: Vec<(u8, u8)> = vec![];
        'o: for a in 0..5u8 {
            for b in a + 1..5u8 {
                if k4.len() == ne {
                    break 'o;
                }
                k4.push((a, b));
            }
        }
        if k4.len() == ne {
            shapes.push(k4);
        }
    }
    par_for(shapes.len(), |i, acc| {
        let shape = &shapes[i];
        let ne = shape.len();
        for (massive, ext, d, w, graded) in [
            (vec![true; ne], vec![], 4usize, 4.0f64, false),
            (vec![false; ne], vec![shape[0].0, shape[ne - 1].1], 3, 2.0 / 3.0, false),
            ((0..ne).map(|e| e % 2 == 0).collect(), vec![shape[0].0], 6, 1.0, false),
            // odd D*L and pairwise different weights (every table row different)
            (vec![true; ne], vec![shape[0].0, shape[ne - 1].1], 3, 1.5, true),
            ((0..ne).map(|e| e % 3 == 1).collect::<Vec<bool>>(), vec![shape[0].0, shape[ne / 2].0], 5, 2.5, true),
            (vec![true; ne], vec![], 1, 1.0, true),
        ] {
            let weights: Vec<f64> = (0..ne).map(|e| if graded { w + e as f64 / 32.0 } else { w }).collect();
            let g = mk(shape, &massive, &weights, &ext, d);
            let pre = precompute(&g);
            acc.inc("big_shape_builds");
            acc.inc("configurations");
            let ok = check_config(&g, &pre, judge, acc, 0);
            if ok {
                acc.inc("big_shapes_accepted");
            }
        }
    })
}

pub fn replay(ctx: &Ctx, case: &Value) -> i32 {
    let g = graph_from_json(&case["graph"]);
    let judge = Judge {
        c03: ctx.prop == "C03",
        c04: ctx.prop == "C04",
        c05: ctx.prop == "C05",
    };
    let mut acc = Acc::new();
    if case["extra"]["mode"] == "build-history" {
        let first = graph_from_json(&case["extra"]["first"]);
        let g1 = g.clone();
        let alone = std::thread::spawn(move || build_fingerprint(&g1)).join().unwrap();
        let g2 = g.clone();
        let after = std::thread::spawn(move || {
            let _ = build_fingerprint(&first);
            build_fingerprint(&g2)
        })
        .join()
        .unwrap();
        eprintln!("built first : {}", &alone[..alone.len().min(200)]);
        eprintln!("built second: {}", &after[..after.len().min(200)]);
        if alone != after {
            acc.violate("replay".into(), "deterministic", "differs".into(), json!({}));
        }
    } else if case["extra"]["mode"] == "hash-order" {
        use momtrop::verif_hooks::set_hash_order;
        let p: Vec<usize> = case["extra"]["order"].as_array().unwrap().iter().map(|v| v.as_u64().unwrap() as usize).collect();
        let base = build_fingerprint(&g);
        let mut perm: Vec<u64> = (0..256u64).map(|k| k + 1000).collect();
        for (k, &v) in p.iter().enumerate() {
            perm[k] = v as u64;
        }
        set_hash_order(Some(perm));
        let other = build_fingerprint(&g);
        set_hash_order(None);
        eprintln!("production build : {}", &base[..base.len().min(300)]);
        eprintln!("order {p:?} build: {}", &other[..other.len().min(300)]);
        if base != other {
            acc.violate("replay".into(), "deterministic", "differs".into(), json!({}));
        }
    } else {
        let pre = precompute(&g);
        check_config(&g, &pre, judge, &mut acc, 7);
    }
    eprintln!("replay of {}: graph {}", ctx.prop, graph_json(&g));
    for v in &acc.violations {
        eprintln!("  reproduced: [{}] {}", v.clause, v.what);
    }
    if acc.violations.is_empty() {
        eprintln!("  no violation reproduced");
        0
    } else {
        1
    }
}
