//! Exact rational linear algebra on small dense matrices.
use crate::num::*;
use num_traits::{One, Signed, Zero};

#[derive(Clone, Debug, PartialEq)]
pub struct QMat {
    pub n: usize,
    pub a: Vec<Vec<Q>>,
}

impl QMat {
    pub fn zeros(n: usize) -> Self {
        QMat {
            n,
            a: vec![vec![Q::zero(); n]; n],
        }
    }
    pub fn identity(n: usize) -> Self {
        let mut m = Self::zeros(n);
        for i in 0..n {
            m.a[i][i] = Q::one();
        }
        m
    }
    pub fn from_f64(n: usize, data: &[f64]) -> Option<Self> {
        let mut m = Self::zeros(n);
        for i in 0..n {
            for j in 0..n {
                m.a[i][j] = qf_opt(data[i * n + j])?;
            }
        }
        Some(m)
    }
    pub fn transpose(&self) -> Self {
        let mut m = Self::zeros(self.n);
        for i in 0..self.n {
            for j in 0..self.n {
                m.a[i][j] = self.a[j][i].clone();
            }
        }
        m
    }
    pub fn mul(&self, o: &QMat) -> QMat {
        let n = self.n;
        let mut m = Self::zeros(n);
        for i in 0..n {
            for j in 0..n {
                let mut s = Q::zero();
                for k in 0..n {
                    s += &self.a[i][k] * &o.a[k][j];
                }
                m.a[i][j] = s;
            }
        }
        m
    }
    pub fn sub(&self, o: &QMat) -> QMat {
        let n = self.n;
        let mut m = Self::zeros(n);
        for i in 0..n {
            for j in 0..n {
                m.a[i][j] = &self.a[i][j] - &o.a[i][j];
            }
        }
        m
    }
    /// determinant by fraction Gaussian elimination
    pub fn det(&self) -> Q {
        let n = self.n;
        let mut a = self.a.clone();
        let mut det = Q::one();
        for c in 0..n {
            let mut p = None;
            for r in c..n {
                if !a[r][c].is_zero() {
                    p = Some(r);
                    break;
                }
            }
            let p = match p {
                None => return Q::zero(),
                Some(p) => p,
            };
            if p != c {
                a.swap(p, c);
                det = -det;
            }
            det *= &a[c][c];
            for r in c + 1..n {
                if a[r][c].is_zero() {
                    continue;
                }
                let f = &a[r][c] / &a[c][c];
                for k in c..n {
                    let t = &f * &a[c][k];
                    a[r][k] -= t;
                }
            }
        }
        det
    }
    pub fn inverse(&self) -> Option<QMat> {
        let n = self.n;
        let mut a = self.a.clone();
        let mut b = Self::identity(n).a;
        for c in 0..n {
            let mut p = None;
            for r in c..n {
                if !a[r][c].is_zero() {
                    p = Some(r);
                    break;
                }
            }
            let p = p?;
            a.swap(p, c);
            b.swap(p, c);
            let piv = a[c][c].clone();
            for k in 0..n {
                a[c][k] = &a[c][k] / &piv;
                b[c][k] = &b[c][k] / &piv;
            }
            for r in 0..n {
                if r == c || a[r][c].is_zero() {
                    continue;
                }
                let f = a[r][c].clone();
                for k in 0..n {
                    let t = &f * &a[c][k];
                    a[r][k] -= t;
                    let t = &f * &b[c][k];
                    b[r][k] -= t;
                }
            }
        }
        Some(QMat { n, a: b })
    }
    /// max column sum
    pub fn norm1(&self) -> Q {
        let mut best = Q::zero();
        for j in 0..self.n {
            let mut s = Q::zero();
            for i in 0..self.n {
                s += self.a[i][j].abs();
            }
            if s > best {
                best = s;
            }
        }
        best
    }
    pub fn max_abs(&self) -> Q {
        let mut best = Q::zero();
        for r in &self.a {
            for x in r {
                if x.abs() > best {
                    best = x.abs();
                }
            }
        }
        best
    }
    /// cond_1 = ||A||_1 ||A^-1||_1 (None if singular)
    pub fn cond1(&self) -> Option<Q> {
        let inv = self.inverse()?;
        Some(self.norm1() * inv.norm1())
    }
    pub fn is_symmetric(&self) -> bool {
        for i in 0..self.n {
            for j in 0..i {
                if self.a[i][j] != self.a[j][i] {
                    return false;
                }
            }
        }
        true
    }
    /// positive definite iff all leading principal minors > 0 (exact)
    pub fn is_spd(&self) -> bool {
        if !self.is_symmetric() {
            return false;
        }
        // LDL^T style elimination without pivoting
        let n = self.n;
        let mut a = self.a.clone();
        for c in 0..n {
            if !a[c][c].is_positive() {
                return false;
            }
            for r in c + 1..n {
                if a[r][c].is_zero() {
                    continue;
                }
                let f = &a[r][c] / &a[c][c];
                for k in c..n {
                    let t = &f * &a[c][k];
                    a[r][k] -= t;
                }
            }
        }
        true
    }
    /// exact pivots d_i of the LDL^T elimination without pivoting (product = det); None if a zero pivot is met before the end
    pub fn ldl_pivots(&self) -> Vec<Q> {
        let n = self.n;
        let mut a = self.a.clone();
        let mut piv = vec![];
        for c in 0..n {
            piv.push(a[c][c].clone());
            if a[c][c].is_zero() {
                break;
            }
            for r in c + 1..n {
                if a[r][c].is_zero() {
                    continue;
                }
                let f = &a[r][c] / &a[c][c];
                for k in c..n {
                    let t = &f * &a[c][k];
                    a[r][k] -= t;
                }
            }
        }
        piv
    }
    /// cond_1 of D^{-1/2} A D^{-1/2} with D = diag(A) rounded to powers of 4 (so D^{-1/2} is a power of two: rational)
    pub fn scaled_cond1(&self) -> Option<Q> {
        let n = self.n;
        let mut s = vec![Q::one(); n];
        for i in 0..n {
            if !self.a[i][i].is_positive() {
                return None;
            }
            let l = q_log2(&self.a[i][i]);
            let k = (l / 2.0).round() as i32; // d ≈ 4^k, d^{-1/2} = 2^{-k}
            s[i] = pow2(-k);
        }
        let mut m = Self::zeros(n);
        for i in 0..n {
            for j in 0..n {
                m.a[i][j] = &self.a[i][j] * &s[i] * &s[j];
            }
        }
        m.cond1()
    }
}

pub fn pow2(k: i32) -> Q {
    use num_bigint::BigInt;
    if k >= 0 {
        Q::from_integer(BigInt::one() << (k as usize))
    } else {
        Q::new(BigInt::one(), BigInt::one() << ((-k) as usize))
    }
}

#[cfg(test)]
mod tests {
    use super::*;
    #[test]
    fn inv_det() {
        let m = QMat::from_f64(2, &[2.0, 1.0, 1.0, 4.0]).unwrap();
        assert_eq!(m.det(), qi(7));
        let inv = m.inverse().unwrap();
        assert_eq!(inv.mul(&m), QMat::identity(2));
        assert!(m.is_spd());
        let s = QMat::from_f64(2, &[1.0, 2.0, 2.0, 1.0]).unwrap();
        assert!(!s.is_spd());
        assert_eq!(QMat::from_f64(2, &[1.0, 1.0, 1.0, 1.0]).unwrap().det(), qi(0));
        assert!(m.scaled_cond1().unwrap() < qi(10));
    }
}
