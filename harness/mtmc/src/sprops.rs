//! Property clauses evaluated on explored executions of the sampler (C02, C06–C11, C13, C16b, C12-binding).
use crate::common::*;
use crate::obs::*;
use crate::sampler::*;
use num_traits::{Signed, Zero};
use oracle::kin::*;
use oracle::linalg::QMat;
use oracle::num::*;
use oracle::symanzik::*;
use serde_json::{json, Value};

pub struct Plan {
    pub cases: Vec<CaseSpec>,
    pub k: usize,
    pub roles: Roles,
    pub settings: Settings,
    /// full product of the alphabets when it has at most this many points (0 = never)
    pub full_product_cap: usize,
    /// take every n-th sector for graphs with more than `sector_all_up_to` edges
    pub sector_all_up_to: usize,
    pub sector_stride: usize,
    /// also explore the sector's tropical routing
    pub tropical_routing: bool,
    /// budget: at most about this many executions per case, divided by loops^2 (sectors are strided to fit)
    pub points_per_case: usize,
    /// also explore every elementary unimodular change of the base cycle basis (an evenly spaced subset for >= 3 loops)
    pub basis_orbit: bool,
    /// ... only for configurations with at least this many loops
    pub basis_orbit_min_loops: usize,
}

pub fn fam_for(tier: Tier, prop: &str) -> Vec<CaseSpec> {
    let _ = prop;
    let mut v = family(&FamOpts {
        max_e: tier.pick(3, 5),
        max_l: 3,
        named: tier == Tier::Thorough,
        dims: tier.pick(vec![1, 2, 3, 4, 5, 6], vec![1, 2, 3, 4, 5, 6]),
        weights_per: tier.pick(1, 2),
        all_masses_up_to_e: tier.pick(3, 3),
    });
    // vertex labels are arbitrary u8: a few small graphs with labels that collide under mod-64 / mod-128 bit tricks
    for (topo, ext) in [
        (vec![(5u8, 69u8), (5, 69)], vec![5u8, 69]),
        (vec![(5, 69), (69, 133), (133, 5)], vec![5, 69, 133]),
        (vec![(0, 64), (0, 64), (0, 64)], vec![0, 64]),
        (vec![(255, 127), (255, 127), (127, 191)], vec![255, 191]),
    ] {
        let ne = topo.len();
        for massive in [vec![false; ne], vec![true; ne]] {
            for d in [3usize, 4] {
                for w in [1.0, 0.75, 1.25, 1.5, d as f64] {
                    let g = crate::scope::mk(&topo, &massive, &vec![w; ne], &ext, d);
                    if admissible(&g) {
                        v.push(CaseSpec { g, mom_variant: d % 2, mass_variant: 0, label: "named".into() });
                        break;
                    }
                }
            }
        }
    }
    v.extend(weight_pattern_cases());
    // kinematic units: every 9th configuration again with all momenta and masses x 2^-30, every 9th x 2^24
    let n0 = v.len();
    for i in 0..n0 {
        let unit = match i % 9 {
            4 => 1,
            7 => 2,
            _ => continue,
        };
        if v[i].g.externals.is_empty() && !v[i].g.massive.iter().any(|m| *m) {
            continue;
        }
        let mut c = v[i].clone();
        c.mom_variant += 10 * unit;
        c.label = "units".into();
        v.push(c);
    }
    // signed masses: every 9th configuration with a massive edge again with negative mass values
    for i in 0..n0 {
        if i % 9 == 2 && v[i].g.massive.iter().any(|m| *m) {
            let mut c = v[i].clone();
            c.mass_variant += 2;
            c.label = "signed-mass".into();
            v.push(c);
        }
    }
    if tier == Tier::Quick {
        // a few larger named graphs in the quick tier as well: kite (2 loops, 5 edges), 3-loop banana
        let extra = family(&FamOpts {
            max_e: 0,
            max_l: 3,
            named: false,
            dims: vec![3, 4],
            weights_per: 1,
            all_masses_up_to_e: 0,
        });
        v.extend(extra);
        // box (4-cycle) with exactly one massive propagator: the mass can be separated from the momentum-carrying component
        let boxg: Vec<(u8, u8)> = vec![(0, 1), (1, 2), (2, 3), (3, 0)];
        for m in 0..4usize {
            for ext in [vec![0u8, 1], vec![0, 2], vec![0, 1, 2], vec![2, 3], vec![1, 2], vec![3, 2]] {
                for d in [3usize, 4] {
                    for w in [1.0, 0.75, 1.5, d as f64] {
                        let massive: Vec<bool> = (0..4).map(|e| e == m).collect();
                        let g = crate::scope::mk(&boxg, &massive, &vec![w; 4], &ext, d);
                        if admissible(&g) {
                            v.push(CaseSpec { g, mom_variant: m % 2, mass_variant: d % 2, label: "named".into() });
                            break;
                        }
                    }
                }
            }
        }
        // necklace: two bubbles (edge-disjoint cycles) coupled through a third cycle: exact zeros in L with Cholesky fill-in
        let necklace: Vec<(u8, u8)> = vec![(0, 1), (0, 1), (1, 2), (1, 2), (2, 0)];
        // sunrise and bubble joined in a cut vertex: 3 loops, L and L^-1 block diagonal in a block-respecting basis
        let cutv: Vec<(u8, u8)> = vec![(0, 1), (0, 1), (0, 1), (1, 2), (1, 2)];
        for (topo, exts) in [(crate::scope::kite(), vec![vec![0u8, 3], vec![0, 1, 3]]), (crate::scope::banana(3), vec![vec![0u8, 1]]), (necklace, vec![vec![0u8, 1], vec![0, 1, 2]]), (crate::scope::mercedes(), vec![vec![0u8, 1, 2]]), (cutv, vec![vec![0u8, 2], vec![0, 1, 2]])] {
            let ne = topo.len();
            for massive in [vec![false; ne], (0..ne).map(|e| e == 1).collect::<Vec<bool>>()] {
                for ext in &exts {
                    for d in [3usize, 4] {
                        for w in [1.0, 0.75, 2.0 / 3.0, 1.5, d as f64] {
                            let g = crate::scope::mk(&topo, &massive, &vec![w; ne], ext, d);
                            if admissible(&g) {
                                v.push(CaseSpec { g, mom_variant: d % 2, mass_variant: 0, label: "named".into() });
                                break;
                            }
                        }
                    }
                }
            }
        }
    }
    v
}

pub type PointFn<'a> = dyn Fn(&Case, &Routed, &PointObs, usize, &mut Acc) + Sync + 'a;

/// generic exploration: cases × routings × sectors × points
pub fn explore(plan: &Plan, f: &PointFn) -> Acc {
    // longest first: the work items are handed out dynamically, so the expensive configurations must not come last
    let mut order: Vec<usize> = (0..plan.cases.len()).collect();
    order.sort_by_key(|&i| {
        let g = &plan.cases[i].g;
        let l = g.loop_number(g.full());
        std::cmp::Reverse((l * l * g.ne() * g.dim, i))
    });
    par_for(plan.cases.len(), |item, acc| {
        let i = order[item];
        let case = match Case::new(&plan.cases[i]) {
            Some(c) => c,
            None => {
                acc.inc("cases_not_admissible");
                return;
            }
        };
        acc.inc("cases");
        acc.hist("case_shape", &format!("E{}L{}D{}", case.g.ne(), case.nl, case.g.dim));
        if case.generic {
            acc.inc("cases_generic_kinematics");
        }
        let base = match route_via(&case, &case.base_kin()) {
            Ok(r) => r,
            Err(e) => {
                acc.violate(
                    format!("{}/build-failed/{:016x}", "engine", fnv(&graph_json(&case.g).to_string())),
                    "admissible graph builds",
                    format!("graph that the oracle classifies as accepted did not build: {e}"),
                    json!({"engine": "table", "graph": graph_json(&case.g), "extra": {}}),
                );
                return;
            }
        };
        acc.hist("construction_path", base.via);
        let mut orbit_routed: Vec<Routed> = vec![];
        if plan.basis_orbit {
            // a loop-momentum offset: every edge that carries a loop momentum - self-loops included - gets a non-zero shift
            let a: Vec<Vec<Q>> = (0..case.nl).map(|l| (0..case.g.dim).map(|c| if c % 2 == 0 { qr(1 + l as i64, 2) } else { qi(-3) }).collect()).collect();
            if let Ok(r) = route_via(&case, &case.base_kin().offset(&a)) {
                orbit_routed.push(r);
            }
        }
        if plan.basis_orbit && case.nl >= plan.basis_orbit_min_loops.max(2) {
            let bk = case.base_kin();
            let mut ks: Vec<oracle::kin::Kin> = oracle::kin::elementary_unimodular(case.nl).iter().map(|m| bk.change_basis(m)).collect();
            let keep = match case.nl {
                2 => usize::MAX,
                3 => 8,
                4 => 4,
                _ => 2,
            };
            if ks.len() > keep {
                let step = ks.len() as f64 / keep as f64;
                ks = (0..keep).map(|i| ks[(i as f64 * step) as usize].clone()).collect();
            }
            for k in ks {
                if let Ok(r) = route_via(&case, &k) {
                    orbit_routed.push(r);
                }
            }
        }
        let ne = case.g.ne();
        let sectors = all_sectors(ne);
        let t_case = std::time::Instant::now();
        // budget: estimate points per sector from the first sector, stride the sectors to fit
        let per_sector = match sector_full_product(&case, &sectors[0], &plan.roles, plan.full_product_cap) {
            Some(p) if plan.full_product_cap > 0 => p.len(),
            _ => sector_points(&case, &sectors[0], plan.k, &plan.roles).len(),
        } * (if plan.tropical_routing { 2 } else { 1 } + orbit_routed.len());
        let budget = (plan.points_per_case / (case.nl * case.nl).max(1)).max(per_sector);
        let fit = (budget / per_sector.max(1)).max(1);
        let mut stride = (sectors.len() + fit - 1) / fit;
        if ne > plan.sector_all_up_to {
            stride = stride.max(plan.sector_stride);
        }
        if stride > 1 {
            acc.inc("cases_with_strided_sectors");
        }
        for (si, order) in sectors.iter().enumerate() {
            if si % stride != 0 {
                continue;
            }
            if time_up() {
                acc.inc("items_skipped_by_time_cap");
                break;
            }
            acc.inc("sectors");
            let mut routings: Vec<Routed> = vec![];
            if plan.tropical_routing {
                if let Ok(r) = route_via(&case, &case.tropical_kin(order)) {
                    routings.push(r);
                }
            }
            let pts: Vec<(Vec<f64>, usize)> = match sector_full_product(&case, order, &plan.roles, plan.full_product_cap) {
                Some(p) if plan.full_product_cap > 0 => {
                    acc.inc("sectors_full_product");
                    p.into_iter().map(|x| (x, 99)).collect()
                }
                _ => sector_points(&case, order, plan.k, &plan.roles),
            };
            // SETTINGS alphabet on the sector's default point: the other combinations of print_debug_info and
            // matrix_stability_test (+inf: never fails) that still return what the point function reads (metadata kept);
            // clauses that need the debug log are vacuous without it, the clauses on returned values are judged
            if let Some((x0, _)) = pts.first() {
                for (dbg, stab) in [(!plan.settings.debug, plan.settings.stability), (plan.settings.debug, Some(f64::INFINITY)), (!plan.settings.debug, Some(f64::INFINITY))] {
                    let alt = Settings { stability: stab, debug: dbg, metadata: plan.settings.metadata };
                    let po = observe_point(&case, &base, x0, &alt);
                    acc.inc("executions");
                    acc.inc("settings_alphabet_executions");
                    acc.add("answers_consumed", x0.len() as u64);
                    let nv = acc.violations.len();
                    f(&case, &base, &po, 0, acc);
                    for v in acc.violations.iter_mut().skip(nv) {
                        if let Some(o) = v.replay.as_object_mut() {
                            o.insert("settings".into(), settings_json(&alt));
                        }
                        v.what = format!("{} [settings: print_debug_info = {}, matrix_stability_test = {:?}]", v.what, alt.debug, alt.stability);
                    }
                }
            }
            for (pi, (x, ndev)) in pts.iter().enumerate() {
                // large exact-arithmetic cases can spend minutes inside ONE sector: the wall-clock cap is honoured here too
                if pi % 16 == 15 && time_up() {
                    acc.inc("items_skipped_by_time_cap");
                    break;
                }
                for r in std::iter::once(&base).chain(routings.iter()).chain(orbit_routed.iter()) {
                    let po = observe_point(&case, r, x, &plan.settings);
                    acc.inc("executions");
                    acc.add("answers_consumed", x.len() as u64);
                    acc.hist("outcome", &po.out.kind());
                    f(&case, r, &po, *ndev, acc);
                }
            }
        }
        acc.max(&format!("case_seconds[E{}L{}]", case.g.ne(), case.nl), t_case.elapsed().as_secs_f64());
    })
}

fn pkey(prop: &str, clause: &str, case: &Case, x: &[f64]) -> String {
    let s: String = x.iter().map(|v| bits(*v)).collect::<Vec<_>>().join("");
    let clause = clause.replace('/', "|");
    format!(
        "{prop}/{clause}/{:016x}/{:016x}",
        fnv(&graph_json(&case.g).to_string()),
        fnv(&s)
    )
}

fn viol(acc: &mut Acc, prop: &str, clause: &str, case: &Case, r: &Routed, po: &PointObs, st: &Settings, what: String) {
    acc.violate(pkey(prop, clause, case, &po.x), clause, what, point_case(case, &r.kin, &po.x, st, json!({"prop": prop})));
}

/// G4 on the implementation's own intermediates before the rescaling: parameters and tropical values within
/// [1e-280, 1e280] (below that the products that form u_trop are subnormal and carry no accuracy)
fn g4_unrescaled(log: &LogRec) -> bool {
    let ok = |v: f64| v.is_finite() && v >= 1e-280 && v <= 1e280;
    match (&log.x_unrescaled, log.u_trop_nr, log.v_trop_nr) {
        // the product U_tr V_tr is an intermediate of the rescaling as well (the implementation forms it and divides by it)
        (Some(x), Some(u), Some(v)) => x.iter().all(|a| ok(*a)) && ok(u) && ok(v) && ok(u * v),
        _ => false,
    }
}

/// G4 for the jacobian: the implementation forms u^(-D/2) and v^(-dod) separately; each of the two powers is an intermediate and
/// must lie in [1e-278, 1e278] (with large momenta in small units, v ~ 1e31 and dod ~ 10 give v^(-dod) ~ 1e-323, a subnormal)
pub fn jacobian_powers_in_range(d2: f64, dod: f64, u: f64, v: f64) -> bool {
    u > 0.0 && v > 0.0 && (d2 * u.ln()).abs() <= 640.0 && (dod * v.ln()).abs() <= 640.0
}

fn finite_pos(v: &[f64]) -> bool {
    v.iter().all(|x| x.is_finite() && *x > 0.0)
}

/// brute-force tropical values at exact parameters: (max tree monomial, max F monomial)
fn trop_exact(case: &Case, xq: &[Q]) -> (Q, Q) {
    (u_trop(&case.comb, xq), case.fpoly.trop(xq))
}

// ===================================================================================================
// C07
// ===================================================================================================

pub fn c07_point(case: &Case, r: &Routed, po: &PointObs, _nd: usize, acc: &mut Acc) {
    let st = Settings::FULL;
    if let Outcome::Panic(p) = &po.out {
        viol(acc, "C07", "no-panic", case, r, po, &st, format!("sample panicked: {p}"));
        return;
    }
    let rr = match &po.rr {
        Some(rr) => rr,
        None => return,
    };
    if rr.margin < 1e-9 {
        acc.inc("excluded_G5_boundary");
        return;
    }
    let (xnr, x) = match (&po.log.x_unrescaled, &po.log.x) {
        (Some(a), Some(b)) => (a, b),
        _ => {
            acc.inc("log_missing");
            return;
        }
    };
    acc.inc("points_judged");
    let ne = case.g.ne();
    // (a) sector formula
    let first = rr.order[0];
    if xnr[first] != 1.0 {
        viol(acc, "C07", "sector-formula", case, r, po, &st, format!("first removed edge {first} has unrescaled parameter {:e}, expected exactly 1", xnr[first]));
    }
    let mut in_range_all = true;
    for e in 0..ne {
        let lref = rr.ln_x[e];
        if lref < -640.0 {
            in_range_all = false;
            continue; // below 1e-278: underflow regime, not judged
        }
        let want = libm::exp(lref);
        let tol = TAU0 * rr.kappa_cond;
        let err = ((xnr[e] - want) / want).abs();
        acc.max("c07a_err_units", err / tol);
        if !(err <= tol) {
            viol(
                acc,
                "C07",
                "sector-formula",
                case,
                r,
                po,
                &st,
                format!("edge {e}: unrescaled parameter {:e}, sector formula gives {want:e} (rel err {err:e}, tol {tol:e}); order {:?}", xnr[e], rr.order),
            );
            return;
        }
    }
    if !in_range_all {
        acc.inc("excluded_G4_partially");
    }
    // (b) tropical polynomials before rescaling
    if finite_pos(xnr) && xnr.iter().all(|v| *v >= 1e-290) {
        let xq: Vec<Q> = xnr.iter().map(|v| qf(*v)).collect();
        let (ut, ft) = trop_exact(case, &xq);
        if let Some(got) = po.log.u_trop_nr {
            let err = rel_err_f(got, &ut);
            if q_in_range(&ut) {
                acc.max("c07b_utrop_err_units_1e-12", err / 1e-12);
            }
            if q_in_range(&ut) && !(err <= 1e-12) {
                viol(acc, "C07", "u_trop=max-monomial(U)", case, r, po, &st, format!("logged u_trop {got:e}, largest monomial of U is {:e}", q_to_f64(&ut)));
            }
        }
        if case.generic && !ft.is_zero() {
            let vt = &ft / &ut;
            if let Some(got) = po.log.v_trop_nr {
                let err = rel_err_f(got, &vt);
                acc.inc("vtrop_judged");
                if q_in_range(&vt) && !(err <= 1e-12) {
                    viol(acc, "C07", "v_trop=max-monomial(F)/max-monomial(U)", case, r, po, &st, format!("logged v_trop {got:e}, brute force gives {:e}", q_to_f64(&vt)));
                }
            }
        } else {
            acc.inc("excluded_G3_vtrop");
        }
    } else {
        acc.inc("excluded_G4_tropical");
    }
    // (d) one common factor
    if finite_pos(xnr) && finite_pos(x) && xnr.iter().all(|v| *v >= 1e-290) {
        let ratios: Vec<f64> = (0..ne).map(|e| x[e] / xnr[e]).collect();
        let (mn, mx) = ratios.iter().fold((f64::INFINITY, 0.0f64), |(a, b), &v| (a.min(v), b.max(v)));
        if !(mx / mn - 1.0 <= 16.0 * f64::EPSILON) {
            viol(acc, "C07", "common-rescaling", case, r, po, &st, format!("rescaled/unrescaled ratios differ: {ratios:?}"));
        }
        // (c) normalisation in the rescaled gauge
        if case.generic && g4_unrescaled(&po.log) {
            let xq: Vec<Q> = x.iter().map(|v| qf(*v)).collect();
            let (ut, ft) = trop_exact(case, &xq);
            if !ft.is_zero() && !ut.is_zero() {
                let lu = q_ln(&ut);
                let lv = q_ln(&ft) - lu;
                let d2 = case.g.dim as f64 / 2.0;
                let lhs = d2 * lu + case.dod * lv;
                let xq0: Vec<Q> = xnr.iter().map(|v| qf(*v)).collect();
                let (ut0, ft0) = trop_exact(case, &xq0);
                let kap = 1.0 + (d2 * q_ln(&ut0)).abs() + (case.dod * (q_ln(&ft0) - q_ln(&ut0))).abs();
                acc.inc("normalisation_judged");
                acc.max("c07c_err_units", lhs.abs() / (1e-10 * kap));
                if !(lhs.abs() <= 1e-10 * kap) {
                    viol(acc, "C07", "U_tr^(D/2) V_tr^dod = 1 after rescaling", case, r, po, &st, format!("ln(U_tr^(D/2) V_tr^dod) = {lhs:e} at the rescaled parameters (allowed {:e})", 1e-10 * kap));
                }
            }
        }
    }
}

// ===================================================================================================
// C11
// ===================================================================================================

pub fn c11_point(case: &Case, r: &Routed, po: &PointObs, _nd: usize, acc: &mut Acc) {
    let st = Settings::FULL;
    let s = match &po.out {
        Outcome::Ok(s) => s,
        Outcome::Panic(p) => {
            viol(acc, "C11", "no-panic", case, r, po, &st, format!("sample panicked: {p}"));
            return;
        }
        Outcome::Err(_) => return,
    };
    let rr = match &po.rr {
        Some(rr) => rr,
        None => return,
    };
    if rr.margin < 1e-9 {
        acc.inc("excluded_G5_boundary");
        return;
    }
    acc.inc("points_judged");
    if s.u_trop.to_bits() != 1.0f64.to_bits() || s.v_trop.to_bits() != 1.0f64.to_bits() {
        viol(acc, "C11", "u_trop=v_trop=1", case, r, po, &st, format!("returned u_trop = {:e}, v_trop = {:e}", s.u_trop, s.v_trop));
    }
    let d2 = case.g.dim as f64 / 2.0;
    if !jacobian_powers_in_range(d2, case.dod, s.u, s.v) {
        acc.inc("excluded_G4_power_intermediate");
        return;
    }
    // from the returned u, v and the stored normalisation
    if let Some(cf) = r.cached_factor() {
        if in_range(&[s.u, s.v, s.jacobian]) && s.u > 0.0 && s.v > 0.0 {
            let want = cf * libm::exp(-d2 * libm::log(s.u) - case.dod * libm::log(s.v));
            let kap = 1.0 + (d2 * s.u.ln()).abs() + (case.dod * s.v.ln()).abs();
            let err = ((s.jacobian - want) / want).abs();
            acc.inc("returned_formula_judged");
            acc.max("c11_returned_err_units", err / (1e-12 * kap));
            if !(err <= 1e-12 * kap) {
                viol(acc, "C11", "jacobian = normalisation u^(-D/2) v^(-dod)", case, r, po, &st, format!("jacobian {:e} but normalisation*u^(-D/2)*v^(-dod) = {want:e} (u={:e}, v={:e})", s.jacobian, s.u, s.v));
            }
        }
    }
    // gauge-free oracle formula at the logged parameters, rescaled and unrescaled
    if !case.generic {
        acc.inc("excluded_G3");
        return;
    }
    if !g4_unrescaled(&po.log) {
        acc.inc("excluded_G4_underflow_before_rescaling");
        return;
    }
    for (name, xs) in [("rescaled", &po.log.x), ("unrescaled", &po.log.x_unrescaled)] {
        let xs = match xs {
            Some(x) => x,
            None => continue,
        };
        if !(finite_pos(xs) && xs.iter().all(|v| *v >= 1e-140 && *v <= 1e140)) {
            acc.inc("excluded_G4");
            continue;
        }
        let ex = match exact_at(case, &r.kin, xs) {
            Some(e) => e,
            None => continue,
        };
        if ex.v.is_zero() || !ex.v.is_positive() {
            continue;
        }
        let (ut, ft) = trop_exact(case, &ex.xq);
        let lut = q_ln(&ut);
        let lvt = q_ln(&ft) - lut;
        let lu = q_ln(&ex.u);
        let lv = q_ln(&ex.v);
        let want = case.cached_ref * libm::exp(d2 * (lut - lu) + case.dod * (lvt - lv));
        let kap = (d2 + case.dod + 1.0) * ex.kappa_s * ex.r_cancel.max(1.0) * (1.0 + (d2 * (lut - lu)).abs() + (case.dod * (lvt - lv)).abs());
        let tol = TAU0 * kap;
        if !(tol <= 0.05) {
            acc.inc("excluded_ill_conditioned");
            continue;
        }
        if !in_range(&[want, s.jacobian]) {
            acc.inc("excluded_G4");
            continue;
        }
        let err = ((s.jacobian - want) / want).abs();
        acc.inc(&format!("gauge_formula_judged_{name}"));
        acc.max("c11_gauge_err_units", err / tol);
        if !(err <= tol) {
            viol(acc, "C11", "jacobian = I_tr Γ(dod)/ΠΓ(ν) π^(DL/2) (U_tr/U)^(D/2) (V_tr/V)^dod", case, r, po, &st, format!("jacobian {:e}, oracle formula at the {name} parameters gives {want:e} (rel err {err:e}, tol {tol:e})", s.jacobian));
        }
    }
}

// ===================================================================================================
// C13
// ===================================================================================================

pub fn c13_point(case: &Case, r: &Routed, po: &PointObs, _nd: usize, acc: &mut Acc) {
    let st = Settings::META;
    let s = match &po.out {
        Outcome::Ok(s) => s,
        Outcome::Panic(p) => {
            viol(acc, "C13", "no-panic", case, r, po, &st, format!("sample panicked: {p}"));
            return;
        }
        Outcome::Err(_) => return,
    };
    let rr = match &po.rr {
        Some(rr) => rr,
        None => return,
    };
    let m = match &s.meta {
        Some(m) => m,
        None => return,
    };
    acc.inc("points_judged");
    let d = case.g.dim;
    if m.q_vectors.len() != case.nl || m.q_vectors.iter().any(|q| q.len() != d) {
        viol(acc, "C13", "layout", case, r, po, &st, format!("q_vectors has shape {}x?, expected {}x{d}", m.q_vectors.len(), case.nl));
        return;
    }
    for l in 0..case.nl {
        for c in 0..d {
            let idx = l * d + c;
            let (a, _b) = rr.pairs[idx / 2];
            if !(a > 0.0 && a < 1.0) {
                continue;
            }
            let rad = libm::sqrt(-2.0 * libm::log(a));
            let want = rr.gauss[idx];
            let got = m.q_vectors[l][c];
            let tol = 1e-13 * (1.0 + rad);
            acc.inc("components_judged");
            acc.max("c13_err_units", (got - want).abs() / tol);
            if !((got - want).abs() <= tol) {
                viol(acc, "C13", "Box-Muller component", case, r, po, &st, format!("loop {l} component {c} (flat index {idx}): got {got:e}, Box-Muller of pair {:?} gives {want:e}", rr.pairs[idx / 2]));
                return;
            }
        }
    }
}

// ===================================================================================================
// C08 / C09 / C10 – need metadata and the log
// ===================================================================================================

fn mat_q(n: usize, d: &[f64]) -> Option<QMat> {
    QMat::from_f64(n, d)
}

pub fn c08_point(case: &Case, r: &Routed, po: &PointObs, _nd: usize, acc: &mut Acc) {
    let st = Settings::FULL;
    let s = match &po.out {
        Outcome::Ok(s) => s,
        Outcome::Panic(p) => {
            viol(acc, "C08", "no-panic", case, r, po, &st, format!("sample panicked: {p}"));
            return;
        }
        Outcome::Err(_) => return,
    };
    let (m, x) = match (&s.meta, &po.log.x) {
        (Some(m), Some(x)) => (m, x),
        _ => return,
    };
    let nl = case.nl;
    // symmetric bitwise
    for i in 0..nl {
        for j in 0..i {
            if m.l_matrix[i * nl + j].to_bits() != m.l_matrix[j * nl + i].to_bits() {
                viol(acc, "C08", "L symmetric", case, r, po, &st, format!("L[{i},{j}] = {:e} != L[{j},{i}] = {:e}", m.l_matrix[i * nl + j], m.l_matrix[j * nl + i]));
                return;
            }
        }
    }
    let ex = match exact_at(case, &r.kin, x) {
        Some(e) => e,
        None => {
            acc.inc("excluded_G4");
            return;
        }
    };
    acc.inc("points_judged");
    let labs = l_matrix_abs(&r.kin.sig, &ex.xq);
    for i in 0..nl {
        for j in 0..nl {
            let got = m.l_matrix[i * nl + j];
            if !got.is_finite() {
                viol(acc, "C08", "L entries", case, r, po, &st, format!("L[{i},{j}] = {got:e}"));
                return;
            }
            let diff = (qf(got) - &ex.l.a[i][j]).abs();
            let bound = qf(TAU0) * &labs.a[i][j];
            if diff > bound {
                viol(acc, "C08", "L entries", case, r, po, &st, format!("L[{i},{j}] = {got:e}, exact sum_e x_e s_ei s_ej = {:e}", q_to_f64(&ex.l.a[i][j])));
                return;
            }
        }
    }
    // u = spanning-tree sum, judged with the plain condition number
    // the property scales the tolerance with cond_1(L) and sets no cap; the clause is judged as long as the tolerance
    // still means something (a factor-of-two error is caught up to cond_1 = 1.4e11)
    let tol = TAU0 * ex.cond1;
    if tol <= 0.5 && q_in_range(&ex.u) {
        let err = rel_err_f(s.u, &ex.u);
        acc.inc("u_judged");
        acc.max("c08_u_err_units_cond1", err / tol);
        acc.max("c08_u_err_units_kappa_s(info)", err / (TAU0 * ex.kappa_s));
        if !(err <= tol) {
            viol(acc, "C08", "u = sum over spanning trees", case, r, po, &st, format!("u = {:e}, spanning-tree sum = {:e} (rel err {err:e}, cond_1 {:e})", s.u, q_to_f64(&ex.u), ex.cond1));
        }
    } else {
        acc.inc("excluded_ill_conditioned");
    }
}

pub fn c09_point(case: &Case, r: &Routed, po: &PointObs, _nd: usize, acc: &mut Acc) {
    let st = Settings::FULL;
    let s = match &po.out {
        Outcome::Ok(s) => s,
        Outcome::Panic(p) => {
            viol(acc, "C09", "no-panic", case, r, po, &st, format!("sample panicked: {p}"));
            return;
        }
        Outcome::Err(_) => return,
    };
    let (m, x) = match (&s.meta, &po.log.x) {
        (Some(m), Some(x)) => (m, x),
        _ => return,
    };
    let ex = match exact_at(case, &r.kin, x) {
        Some(e) => e,
        None => {
            acc.inc("excluded_G4");
            return;
        }
    };
    acc.inc("points_judged");
    let d = case.g.dim;
    // u vectors
    let uv = u_vectors(&r.kin, &ex.xq);
    for l in 0..case.nl {
        for c in 0..d {
            let mut scale = Q::zero();
            for e in 0..case.g.ne() {
                scale += (&ex.xq[e] * qi(r.kin.sig[e][l]) * &r.kin.shifts[e][c]).abs();
            }
            let got = m.u_vectors[l][c];
            let diff = if got.is_finite() { (qf(got) - &uv[l][c]).abs() } else { qi(1) };
            if diff > qf(TAU0) * &scale || !got.is_finite() {
                viol(acc, "C09", "u_vectors", case, r, po, &st, format!("u_vectors[{l}][{c}] = {got:e}, exact {:e}", q_to_f64(&uv[l][c])));
                return;
            }
        }
    }
    // v u = F
    if ex.v.is_zero() {
        acc.inc("excluded_V_zero");
        return;
    }
    let tol = TAU0 * ex.kappa_s * ex.r_cancel.max(1.0);
    if !(tol <= 0.05) || !q_in_range(&ex.v) {
        acc.inc("excluded_ill_conditioned");
        return;
    }
    let err = rel_err_f(s.v, &ex.v);
    acc.inc("v_judged");
    acc.max("c09_v_err_units", err / tol);
    if !(err <= tol) {
        viol(acc, "C09", "v u = F (2-forest polynomial + U Σ m² x)", case, r, po, &st, format!("v = {:e}, F/U = {:e} (rel err {err:e}, tol {tol:e}, R = {:e})", s.v, q_to_f64(&ex.v), ex.r_cancel));
    }
}

pub fn c10_point(case: &Case, r: &Routed, po: &PointObs, _nd: usize, acc: &mut Acc) {
    let st = Settings::FULL;
    let s = match &po.out {
        Outcome::Ok(s) => s,
        Outcome::Panic(p) => {
            viol(acc, "C10", "no-panic", case, r, po, &st, format!("sample panicked: {p}"));
            return;
        }
        Outcome::Err(_) => return,
    };
    let (m, x) = match (&s.meta, &po.log.x) {
        (Some(m), Some(x)) => (m, x),
        _ => return,
    };
    let ex = match exact_at(case, &r.kin, x) {
        Some(e) => e,
        None => {
            acc.inc("excluded_G4");
            return;
        }
    };
    let d = case.g.dim;
    let nl = case.nl;
    let all: Vec<f64> = s
        .loop_momenta
        .iter()
        .flatten()
        .chain(m.q_vectors.iter().flatten())
        .chain(m.shift.iter().flatten())
        .cloned()
        .chain([m.lambda, s.v, s.u])
        .collect();
    if !all.iter().all(|v| v.is_finite()) || !(m.lambda > 0.0) || !(s.v > 0.0) {
        acc.inc("excluded_G4_nonfinite");
        return;
    }
    if !in_range(&[m.lambda, s.v, s.u]) || all.iter().any(|v| v.abs() > 1e140) {
        acc.inc("excluded_G4");
        return;
    }
    let base_tol = TAU0 * ex.kappa_s;
    if !(base_tol * ex.r_cancel.max(1.0) <= 0.05) {
        acc.inc("excluded_ill_conditioned");
        return;
    }
    acc.inc("points_judged");
    // ---- shift = L^-1 u
    let uv = u_vectors(&r.kin, &ex.xq);
    for l in 0..nl {
        for c in 0..d {
            let mut want = Q::zero();
            let mut scale = Q::zero();
            for j in 0..nl {
                want += &ex.linv.a[l][j] * &uv[j][c];
                // absolute contributions incl. the cancellation inside u_j
                let mut uabs = Q::zero();
                for e in 0..case.g.ne() {
                    uabs += (&ex.xq[e] * qi(r.kin.sig[e][j]) * &r.kin.shifts[e][c]).abs();
                }
                scale += ex.linv.a[l][j].abs() * uabs;
            }
            let got = qf(m.shift[l][c]);
            if (got - &want).abs() > qf(base_tol) * &scale {
                viol(acc, "C10", "shift = L^-1 u", case, r, po, &st, format!("shift[{l}][{c}] = {:e}, exact L^-1 u = {:e}", m.shift[l][c], q_to_f64(&want)));
                return;
            }
        }
    }
    // ---- quadratic form identity
    let kq: Vec<Vec<Q>> = s.loop_momenta.iter().map(|k| k.iter().map(|v| qf(*v)).collect()).collect();
    let lhs = quadratic_form(&r.kin, &ex.xq, &kq);
    let qsq: Q = m.q_vectors.iter().flatten().fold(Q::zero(), |a, v| a + qf(*v) * qf(*v));
    let rhs = qf(s.v) * (qi(1) + qsq / (qi(2) * qf(m.lambda)));
    // scale: sum of absolute contributions
    let mut scale = Q::zero();
    for e in 0..case.g.ne() {
        let m2 = r.kin.masses[e].as_ref().map(|m| m * m).unwrap_or_else(Q::zero);
        let mut comp = Q::zero();
        for c in 0..d {
            let mut a = r.kin.shifts[e][c].abs();
            for l in 0..nl {
                a += qi(r.kin.sig[e][l].abs()) * kq[l][c].abs();
            }
            comp += &a * &a;
        }
        scale += &ex.xq[e] * (m2 + comp);
    }
    let diff = (&lhs - &rhs).abs();
    let units = q_to_f64(&(&diff / (&scale * qf(base_tol))));
    acc.max("c10_quadratic_err_units", units);
    if diff > qf(base_tol) * &scale {
        viol(acc, "C10", "Σ x_e(|q_e|²+m_e²) = v(1+|q|²/2λ)", case, r, po, &st, format!("quadratic form at the returned momenta = {:e}, v(1+|q|^2/(2 lambda)) = {:e}", q_to_f64(&lhs), q_to_f64(&rhs)));
        return;
    }
    // ---- linear form: q_transposed (k + shift) = sqrt(v/(2λ)) q   (pins the orientation of the factor)
    let c0 = (s.v / (2.0 * m.lambda)).sqrt();
    for l in 0..nl {
        for c in 0..d {
            let mut sum = 0.0f64;
            let mut sabs = 0.0f64;
            for j in 0..nl {
                let t = m.decomp.q_transposed[l * nl + j] * (s.loop_momenta[j][c] + m.shift[j][c]);
                sum += t;
                sabs += m.decomp.q_transposed[l * nl + j].abs() * (s.loop_momenta[j][c].abs() + m.shift[j][c].abs());
            }
            let want = c0 * m.q_vectors[l][c];
            let tol = base_tol * (sabs + want.abs()) + 1e-300;
            acc.max("c10_linear_err_units", (sum - want).abs() / tol);
            if !((sum - want).abs() <= tol) {
                viol(acc, "C10", "Q^T (k + L^-1 u) = sqrt(v/2λ) q", case, r, po, &st, format!("loop {l} comp {c}: q_transposed·(k+shift) = {sum:e}, sqrt(v/2λ) q = {want:e}"));
                return;
            }
        }
    }
    let _ = mat_q;
    // the same momenta on the production path (no metadata, no debug output): bit-identical
    let plain = r.sampler.sample(&po.x, &r.ed, &Settings::DEFAULT);
    acc.inc("production_path_compared");
    match &plain {
        Outcome::Ok(p2) if core_bits(p2) == core_bits(s) => {}
        other => {
            viol(acc, "C10", "same momenta with and without metadata / debug output", case, r, po, &st, format!("default settings give {} with different loop momenta / u / v / jacobian than the metadata run", other.kind()));
        }
    }
}

impl Routed {
    pub fn cached_factor(&self) -> Option<f64> {
        self.mgen.as_ref().map(|m| m.table.cached_factor)
    }
}

// ===================================================================================================
// C02 – bounded weights; C16b – NaN decompositions through sample(); C12 – sampler binding
// ===================================================================================================

pub fn c02_point(case: &Case, r: &Routed, po: &PointObs, _nd: usize, acc: &mut Acc) {
    let st = Settings::FULL;
    let s = match &po.out {
        Outcome::Ok(s) => s,
        Outcome::Panic(p) => {
            viol(acc, "C02", "no-panic", case, r, po, &st, format!("sample panicked: {p}"));
            return;
        }
        Outcome::Err(_) => return,
    };
    if !case.generic {
        acc.inc("excluded_G3");
        return;
    }
    let rr = match &po.rr {
        Some(rr) => rr,
        None => return,
    };
    if rr.margin < 1e-9 {
        acc.inc("excluded_G5_boundary");
        return;
    }
    let nt = case.comb.n_trees() as f64;
    let (cmin, csum) = match case.fpoly.c_min() {
        Some(c) => (q_to_f64(&c), q_to_f64(&case.fpoly.c_sum())),
        None => return,
    };
    let nontrivial = case.comb.n_trees() >= 2 && case.fpoly.distinct_coeffs() >= 2;
    let d2 = case.g.dim as f64 / 2.0;
    let lo = libm::exp(-d2 * nt.ln() - case.dod * csum.ln());
    let hi = libm::exp(case.dod * (nt.ln() - cmin.ln()));
    // (a) the implementation's own tropical values bound the exact polynomials at the unrescaled parameters
    if let (Some(xnr), Some(ut), Some(vt)) = (&po.log.x_unrescaled, po.log.u_trop_nr, po.log.v_trop_nr) {
        // G4: all values in the normal range (a product of many parameters >= 1e-140 can still be subnormal, where f64 products
        // are no longer accurate to a relative 2^-53)
        if finite_pos(xnr) && xnr.iter().all(|v| *v >= 1e-140) && ut.is_finite() && vt.is_finite() && ut >= 1e-290 && vt >= 1e-290 {
            if let Some(ex) = exact_at(case, &r.kin, xnr) {
                if ex.r_cancel <= 1e8 && !ex.v.is_zero() {
                    acc.inc("polynomial_bounds_judged");
                    if nontrivial {
                        acc.inc("polynomial_bounds_judged_nontrivial");
                    }
                    let slack = qf(1.0 + 1e-12);
                    let (utq, vtq) = (qf(ut), qf(vt));
                    let ntq = qi(case.comb.n_trees() as i64);
                    let cminq = case.fpoly.c_min().unwrap();
                    let csumq = case.fpoly.c_sum();
                    let ok_u = utq <= &ex.u * &slack && ex.u <= &ntq * &utq * &slack;
                    let ok_v = &cminq / &ntq * &vtq <= &ex.v * &slack && ex.v <= &csumq * &vtq * &slack;
                    if !ok_u {
                        viol(acc, "C02", "U_tr <= U <= N_T U_tr", case, r, po, &st, format!("U_tr (logged) = {ut:e}, exact U = {:e}, N_T = {nt}", q_to_f64(&ex.u)));
                    }
                    if !ok_v {
                        viol(acc, "C02", "(c_min|N_T) V_tr <= V <= C_sum V_tr", case, r, po, &st, format!("V_tr (logged) = {vt:e}, exact V = {:e}, c_min = {cmin:e}, C_sum = {csum:e}, N_T = {nt}", q_to_f64(&ex.v)));
                    }
                } else {
                    acc.inc("excluded_cancellation_gt_1e8");
                }
            }
        } else {
            acc.inc("excluded_G4");
        }
    }
    // (b),(c) the gauge-free consequence, at the rescaled parameters
    if !g4_unrescaled(&po.log) {
        acc.inc("excluded_G4_underflow_before_rescaling");
        return;
    }
    let xs = match &po.log.x {
        Some(x) => x,
        None => return,
    };
    if !(finite_pos(xs) && xs.iter().all(|v| *v >= 1e-140 && *v <= 1e140)) {
        acc.inc("excluded_G4");
        return;
    }
    let ex = match exact_at(case, &r.kin, xs) {
        Some(e) => e,
        None => return,
    };
    if !(ex.r_cancel <= 1e8) {
        acc.inc("excluded_cancellation_gt_1e8");
        return;
    }
    let tol = TAU0 * (d2 + case.dod + 1.0) * ex.kappa_s * ex.r_cancel.max(1.0) * (1.0 + (lo.ln()).abs() + hi.ln().abs());
    if !(tol <= 0.05) {
        acc.inc("excluded_ill_conditioned");
        return;
    }
    if !in_range(&[s.jacobian, s.u, s.v]) || !jacobian_powers_in_range(d2, case.dod, s.u, s.v) {
        acc.inc("excluded_G4");
        return;
    }
    acc.inc("points_judged");
    if nontrivial {
        acc.inc("points_judged_nontrivial");
    }
    if let Some(cf) = r.cached_factor() {
        let ratio = s.jacobian / cf;
        acc.max("c02_ratio_over_hi", ratio / hi);
        acc.max("c02_lo_over_ratio", lo / ratio);
        if !(ratio >= lo * (1.0 - tol) && ratio <= hi * (1.0 + tol)) {
            viol(acc, "C02", "jacobian|normalisation within [N_T^(-D|2) C_sum^(-dod), (N_T|c_min)^dod]", case, r, po, &st, format!("jacobian/normalisation = {ratio:e} outside [{lo:e}, {hi:e}]"));
        }
    }
    let ratio2 = libm::exp(d2 * (s.u_trop.ln() - s.u.ln()) + case.dod * (s.v_trop.ln() - s.v.ln()));
    if !(ratio2 >= lo * (1.0 - tol) && ratio2 <= hi * (1.0 + tol)) {
        viol(acc, "C02", "(u_trop|u)^(D|2) (v_trop|v)^dod within the interval", case, r, po, &st, format!("returned ratio = {ratio2:e} outside [{lo:e}, {hi:e}]"));
    }
}

pub fn run_c02(ctx: &Ctx) -> i32 {
    let tier = ctx.tier;
    let plan = Plan {
        cases: fam_for(tier, "C02"),
        k: tier.pick(2, 2),
        roles: Roles { u: true, xi: true, p: false, ab: false, xi_moderate: false, xi_ladder: false },
        settings: Settings::FULL,
        full_product_cap: tier.pick(600, 3000),
        sector_all_up_to: 4,
        sector_stride: tier.pick(7, 3),
        tropical_routing: true,
        points_per_case: tier.pick(3000, 1200),
        basis_orbit: true,
        basis_orbit_min_loops: 3,
    };
    let mut acc = explore(&plan, &c02_point);
    acc.maxima.insert("phase_seconds_explore".into(), elapsed());
    acc.merge(inplace_pass(&plan.cases, &plan.settings, &c02_point));
    acc.maxima.insert("phase_seconds_inplace".into(), elapsed());
    acc.merge(large_pass(&plan, tier, &c02_point));
    acc.maxima.insert("phase_seconds_large".into(), elapsed());
    acc.violations.sort_by(|a, b| (a.key.as_str(), a.what.as_str()).cmp(&(b.key.as_str(), b.what.as_str())));
    sample_from_plan(&plan, &mut acc);
    let fin = Finish {
        level: "model_checking",
        rule: format!("stateless exploration of the sampler machine into the corners of the hypercube: every sector, every answer sequence with at most {} deviations over the full xi alphabet (2^-1074 ... 1-2^-53) and interval-end selection answers (full product when small), in the base routing and in the sector's tropical routing; at each execution the implementation's logged tropical values are compared with the exact Symanzik polynomials and the returned weight with the graph-only interval; non-trivial = judged executions of configurations with N_T >= 2 and >= 2 distinct F coefficients. Additional passes with the same point function: size ladder (beyond 6 loops / 8 edges / 64 signature entries, fixed sector subset), in-place histories on fresh threads (a different sampler sampled first in the same memory slot), kinematic units 2^-30 and 2^24", plan.k),
        states: acc.get("executions"),
        transitions: acc.get("answers_consumed"),
        traces: acc.get("points_judged") + acc.get("polynomial_bounds_judged"),
        evaluations: acc.get("executions"),
        distinct_nontrivial: acc.get("points_judged_nontrivial") + acc.get("polynomial_bounds_judged_nontrivial"),
        exhaustive: true,
        bounds: json!({"deviation_bound": plan.k, "cases": plan.cases.len(), "cancellation_cap": 1e8}),
        assumptions: vec!["exact N_T, c_min, C_sum, U, F from the oracle; tropical theorem brute-forced by the oracle for generic kinematics".into()],
        extra: Default::default(),
    };
    finish(ctx, &acc, fin)
}

/// C16 (b): corner points through sample() with the stability test on
pub fn c16b(ctx: &Ctx) -> Acc {
    let tier = ctx.tier;
    let mut cases: Vec<CaseSpec> = fam_for(tier, "C16").into_iter().filter(|c| c.g.loop_number(c.g.full()) >= 2 || c.g.ne() <= 2).collect();
    cases.extend(dl_grid_cases().into_iter().filter(|c| c.g.dim == 3 && c.g.loop_number(c.g.full()) <= 4));
    let mut total = Acc::new();
    for tol in [Some(1e-6), Some(f64::INFINITY)] {
        let st = Settings { stability: tol, debug: false, metadata: true };
        let plan = Plan {
            cases: cases.clone(),
            k: tier.pick(2, 3),
            roles: Roles { u: false, xi: true, p: false, ab: false, xi_moderate: false, xi_ladder: false },
            settings: st,
            full_product_cap: tier.pick(600, 5000),
            sector_all_up_to: 3,
            sector_stride: tier.pick(11, 3),
            tropical_routing: false,
            points_per_case: tier.pick(600, 3000),
            basis_orbit: false,
        basis_orbit_min_loops: 2,
        };
        let f = move |case: &Case, r: &Routed, po: &PointObs, _nd: usize, acc: &mut Acc| {
            acc.inc("evaluations");
            acc.inc("c16b_corner_points");
            c16b_point(case, r, po, &st, acc);
        };
        let acc = explore(&plan, &f);
        total.merge(acc);
    }
    total
}

pub fn c16b_point(case: &Case, r: &Routed, po: &PointObs, st: &Settings, acc: &mut Acc) {
    if let Outcome::Ok(s) = &po.out {
        let mut nan = s.u.is_nan();
        if let Some(m) = &s.meta {
            nan |= m.decomp.determinant.is_nan()
                || m.decomp.inverse.iter().chain(&m.decomp.q_transposed).chain(&m.decomp.q_transposed_inverse).any(|x| x.is_nan());
        }
        if nan {
            acc.violate(
                pkey("C16", "sample-ok-with-nan-decomposition", case, &po.x),
                "NaN decomposition never Ok through a sample when the stability test is on",
                format!("sample returned Ok with a NaN decomposition (u = {:e}) although matrix_stability_test = {:?}", s.u, st.stability),
                point_case(case, &r.kin, &po.x, st, json!({"prop": "C16"})),
            );
        }
    }
}

pub fn c12_binding_point(case: &Case, r: &Routed, po: &PointObs, _nd: usize, acc: &mut Acc) {
    let st = Settings::META;
        let rr = match &po.rr {
            Some(rr) => rr,
            None => return,
        };
        let p = rr.p_lambda;
        acc.inc("binding_points");
        let dod_impl = r.sampler.get_dod();
        let (public, _) = crate::kernel::call_gamma(dod_impl, p);
        match (&po.out, public) {
            (Outcome::Panic(m), _) => {
                viol(acc, "C12", "sample does not panic in the Gamma draw", case, r, po, &st, format!("sample panicked with p = {p:e}: {m}"));
            }
            (Outcome::Ok(s), crate::kernel::GammaObs::Err) => {
                let _ = s;
                viol(acc, "C12", "GammaError surfaces as Err(SamplingError::GammaError)", case, r, po, &st, format!("inverse_gamma_lr(dod={dod_impl:e}, p={p:e}) is an error but the sample returned Ok"));
            }
            (Outcome::Err(e), crate::kernel::GammaObs::Err) => {
                if e != "GammaError" {
                    acc.inc("binding_err_other_than_gamma");
                } else {
                    acc.inc("binding_gamma_errors_surfaced");
                }
            }
            (Outcome::Ok(s), _) => {
                if let Some(m) = &s.meta {
                    let l = m.lambda;
                    if !(l.is_finite() && l > 0.0) {
                        viol(acc, "C12", "lambda of a sample is finite and positive", case, r, po, &st, format!("sample used lambda = {l:e}"));
                        return;
                    }
                    let a = case.dod;
                    let (floor, _) = oracle::special::inc_gamma(a, 1e-13);
                    if (0.05..=100.0).contains(&a) && floor <= p && p > 0.0 {
                        let (pp, qq) = oracle::special::inc_gamma(a, l);
                        let err = if p <= 0.5 { (pp - p).abs() } else { (qq - (1.0 - p)).abs() };
                        acc.inc("binding_judged");
                        if !(err <= 2e-8) {
                            viol(acc, "C12", "lambda = Gamma quantile of (dod, designated coordinate)", case, r, po, &st, format!("lambda = {l:e} but P(dod={a:e}, lambda) = {pp:e} while coordinate 2E-2 is {p:e}"));
                        }
                    }
                }
            }
            _ => {}
        }
    }

/// in-place replacement: sampler i is sampled, the SAME memory slot is overwritten by sampler i+1 (different dod) and that is
/// sampled at the bit-identical lambda coordinate; the lambda must be the quantile for the NEW sampler's dod
fn c12_binding_inplace(cases: &[CaseSpec]) -> Acc {
    let st = Settings::META;
    let npairs = cases.len().saturating_sub(1);
    par_for(npairs, |i, acc| {
        let (ca, cb) = match (Case::new(&cases[i]), Case::new(&cases[i + 1])) {
            (Some(a), Some(b)) => (a, b),
            _ => return,
        };
        let mut slot: Vec<Routed> = match route(&ca, &ca.base_kin()) {
            Ok(r) => vec![r],
            Err(_) => return,
        };
        for p in [0.375, 0.75, 1e-3] {
            let oa: Vec<usize> = (0..ca.g.ne()).collect();
            let mut xa = sector_defaults(&ca, &oa);
            xa[2 * ca.g.ne() - 2] = p;
            let _ = slot[0].sampler.sample(&xa, &slot[0].ed, &st);
            slot[0] = match route(&cb, &cb.base_kin()) {
                Ok(r) => r,
                Err(_) => return,
            };
            let ob: Vec<usize> = (0..cb.g.ne()).collect();
            let mut xb = sector_defaults(&cb, &ob);
            xb[2 * cb.g.ne() - 2] = p;
            let po = observe_point(&cb, &slot[0], &xb, &st);
            acc.inc("binding_inplace_replacements");
            c12_binding_point(&cb, &slot[0], &po, 0, acc);
            slot[0] = match route(&ca, &ca.base_kin()) {
                Ok(r) => r,
                Err(_) => return,
            };
        }
    })
}

/// C12 binding: the lambda of a sample is the quantile function of (dod, designated coordinate)
pub fn c12_binding(ctx: &Ctx) -> Acc {
    let tier = ctx.tier;
    let mut cases: Vec<CaseSpec> = fam_for(tier, "C12");
    cases.extend(dl_grid_cases().into_iter().filter(|c| c.g.dim <= 4 && c.g.loop_number(c.g.full()) <= 3));
    let st = Settings::META;
    let plan = Plan {
        cases,
        k: 1,
        roles: Roles { u: false, xi: false, p: true, ab: false, xi_moderate: true, xi_ladder: false },
        settings: st,
        full_product_cap: 0,
        sector_all_up_to: 0,
        sector_stride: 100000,
        tropical_routing: false,
        points_per_case: 100,
        basis_orbit: false,
        basis_orbit_min_loops: 2,
    };
    let f = |case: &Case, r: &Routed, po: &PointObs, nd: usize, acc: &mut Acc| c12_binding_point(case, r, po, nd, acc);
    let mut acc = explore(&plan, &f);
    acc.merge(c12_binding_inplace(&plan.cases));
    acc.merge(c12_binding_free_running(&plan.cases, tier));
    acc
}

/// SUPPLEMENTARY, NOT EXHAUSTIVE (schedules chosen by the operating system): four free-running threads draw the Gamma
/// variate of samplers with different degrees of divergence in turn; every draw is judged by the binding clause. State shared
/// between Gamma draws inside the non-generic f64 code would have no scheduling point under the controlled scheduler.
fn c12_binding_free_running(specs: &[CaseSpec], tier: Tier) -> Acc {
    let st = Settings::META;
    // up to six configurations with pairwise different dod
    let mut cases: Vec<Case> = vec![];
    for s in specs {
        if cases.len() >= 6 {
            break;
        }
        if let Some(c) = Case::new(s) {
            if c.dod >= 0.05 && c.dod <= 100.0 && cases.iter().all(|o| (o.dod - c.dod).abs() > 0.2) && route(&c, &c.base_kin()).is_ok() {
                cases.push(c);
            }
        }
    }
    if cases.len() < 2 {
        return Acc::new();
    }
    let n_iter = tier.pick(1500usize, 15000);
    let results: std::sync::Mutex<Vec<Acc>> = std::sync::Mutex::new(vec![]);
    std::thread::scope(|sc| {
        for t in 0..4usize {
            let (cases, results, st) = (&cases, &results, &st);
            sc.spawn(move || {
                let mut acc = Acc::new();
                let routed: Vec<Routed> = cases.iter().map(|c| route(c, &c.base_kin()).expect("built above")).collect();
                for i in 0..n_iter {
                    let k = (t + i) % cases.len();
                    let case = &cases[k];
                    let order: Vec<usize> = (0..case.g.ne()).collect();
                    let mut x = sector_defaults(case, &order);
                    x[2 * case.g.ne() - 2] = [0.375, 0.75, 1e-3, 0.5, 0.9][i % 5];
                    let po = observe_point(case, &routed[k], &x, st);
                    acc.inc("binding_free_running_executions(uncontrolled, supplementary)");
                    c12_binding_point(case, &routed[k], &po, 0, &mut acc);
                }
                results.lock().unwrap().push(acc);
            });
        }
    });
    let mut total = Acc::new();
    for a in results.into_inner().unwrap() {
        total.merge(a);
    }
    for v in total.violations.iter_mut() {
        v.what = format!("{} [four free-running threads drawing for samplers of different dod in turn; uncontrolled schedule]", v.what);
    }
    total
}

/// C07 (c) in the build WITHOUT any cargo feature, observed without the log: the rescaled Feynman parameters are recovered by the
/// `nolog` binary from `Metadata.u_vectors` (unit shift on one edge at a time) with debug output off and on; they must be
/// identical and satisfy the tropical normalisation.
pub fn c07_nolog_pass(ctx: &Ctx) -> Result<Acc, String> {
    let root = verif_dir();
    let bin = format!("{root}/target/release/nolog");
    if !std::path::Path::new(&bin).exists() {
        return Err(format!("{bin} not built"));
    }
    let all = fam_for(Tier::Quick, "C07");
    let want = ctx.tier.pick(120usize, 400usize);
    let step = (all.len() / want).max(1);
    let hx = |x: f64| format!("{:016x}", x.to_bits());
    let roles = Roles { u: false, xi: true, p: false, ab: false, xi_moderate: true, xi_ladder: false };
    let mut corpus = vec![];
    let mut cases = vec![];
    for spec in all.iter().step_by(step) {
        let case = match Case::new(spec) {
            Some(c) if c.generic => c,
            _ => continue,
        };
        let r = match route(&case, &case.base_kin()) {
            Ok(r) => r,
            Err(_) => continue,
        };
        let ne = case.g.ne();
        let mut pts: Vec<Vec<f64>> = vec![];
        for order in [(0..ne).collect::<Vec<usize>>(), (0..ne).rev().collect::<Vec<usize>>()] {
            let mut p: Vec<Vec<f64>> = sector_points(&case, &order, 1, &roles).into_iter().map(|p| p.0).collect();
            p.truncate(6);
            pts.extend(p);
        }
        corpus.push(json!({
            "dim": case.g.dim,
            "recover": true,
            "edges": (0..ne).map(|e| json!({"v": [r.graph.edges[e].0, r.graph.edges[e].1], "massive": case.g.massive[e], "weight": hx(case.g.weights[e])})).collect::<Vec<_>>(),
            "externals": case.g.externals,
            "sig": r.kin.sig,
            "edge_data": r.ed.iter().map(|(m, s)| json!({"mass": m.map(hx), "shift": s.iter().map(|c| hx(*c)).collect::<Vec<_>>()})).collect::<Vec<_>>(),
            "settings": [{"stability": Value::Null, "debug": false, "metadata": true}, {"stability": Value::Null, "debug": true, "metadata": true}],
            "points": pts.iter().map(|x| x.iter().map(|c| hx(*c)).collect::<Vec<_>>()).collect::<Vec<_>>(),
        }));
        cases.push((case, r, pts));
    }
    let cpath = format!("{root}/target/nolog_c07_{}.json", std::process::id());
    let opath = format!("{root}/target/nolog_c07_out_{}.json", std::process::id());
    std::fs::write(&cpath, serde_json::to_string(&corpus).unwrap()).map_err(|e| e.to_string())?;
    let status = std::process::Command::new(&bin).args([&cpath, &opath]).stdout(std::process::Stdio::null()).stderr(std::process::Stdio::null()).status().map_err(|e| e.to_string())?;
    if !status.success() {
        return Err("nolog binary failed".into());
    }
    let out: Value = serde_json::from_str(&std::fs::read_to_string(&opath).map_err(|e| e.to_string())?).map_err(|e| e.to_string())?;
    let _ = std::fs::remove_file(&cpath);
    let _ = std::fs::remove_file(&opath);
    let mut acc = Acc::new();
    for (ci, ((case, r, pts), theirs)) in cases.iter().zip(out.as_array().ok_or("nolog output")?).enumerate() {
        let rec = theirs["recovered"].as_array().cloned().unwrap_or_default();
        let np = pts.len();
        if rec.len() != 2 * np {
            continue;
        }
        let parse = |v: &Value| -> Option<Vec<f64>> { v.as_array()?.iter().map(|x| x.as_str().map(|s| f64::from_bits(u64::from_str_radix(s, 16).unwrap()))).collect() };
        for k in 0..np {
            let (quiet, debug) = (parse(&rec[k]), parse(&rec[np + k]));
            let (quiet, debug) = match (quiet, debug) {
                (Some(a), Some(b)) => (a, b),
                _ => continue,
            };
            acc.inc("nolog_parameter_sets_recovered");
            let st = Settings { stability: None, debug: true, metadata: true };
            let pc = || point_case(case, &r.kin, &pts[k], &st, json!({"prop": "C07", "build": "no features", "corpus_entry": ci}));
            if quiet.iter().zip(&debug).any(|(a, b)| a.to_bits() != b.to_bits()) {
                acc.violate(pkey("C07", "nolog: parameters independent of debug output", case, &pts[k]), "the parameters that are used do not depend on print_debug_info (build without features)", format!("feature-less build: recovered parameters {quiet:?} (quiet) vs {debug:?} (print_debug_info)"), pc());
                continue;
            }
            for (label, xs) in [("quiet", &quiet), ("print_debug_info", &debug)] {
                if !(finite_pos(xs) && xs.iter().all(|v| *v >= 1e-140 && *v <= 1e140)) {
                    continue;
                }
                let xq: Vec<Q> = xs.iter().map(|v| qf(*v)).collect();
                let (ut, ft) = trop_exact(case, &xq);
                if ft.is_zero() || ut.is_zero() {
                    continue;
                }
                let lu = q_ln(&ut);
                let lv = q_ln(&ft) - lu;
                let d2 = case.g.dim as f64 / 2.0;
                let lhs = d2 * lu + case.dod * lv;
                let kap = 1.0 + (d2 * case.nl as f64 + case.dod) * xs.iter().map(|v| v.ln().abs()).fold(0.0, f64::max);
                acc.inc("nolog_normalisation_judged");
                if !(lhs.abs() <= 1e-9 * kap) {
                    acc.violate(pkey("C07", "nolog: U_tr^(D|2) V_tr^dod = 1 after rescaling", case, &pts[k]), "U_tr^(D/2) V_tr^dod = 1 after rescaling (build without features)", format!("feature-less build, {label}: ln(U_tr^(D/2) V_tr^dod) = {lhs:e} at the parameters recovered from u_vectors (allowed {:e})", 1e-9 * kap), pc());
                }
            }
        }
    }
    Ok(acc)
}

pub fn run_simple(ctx: &Ctx) -> i32 {
    let tier = ctx.tier;
    let prop = ctx.prop.as_str();
    let cases = match prop {
        "C11" => {
            let mut c = fam_for(tier, prop);
            // integer propagator powers >= 3 and every (D, L) cell up to 3 loops
            c.extend(dl_grid_cases().into_iter().filter(|c| c.g.loop_number(c.g.full()) <= 3));
            c
        }
        "C13" | "C10" => {
            let mut c = dl_grid_cases();
            c.extend(fam_for(tier, prop));
            c
        }
        _ => fam_for(tier, prop),
    };
    let (roles, settings, k, cap): (Roles, Settings, usize, usize) = match prop {
        "C07" | "C11" => (
            Roles { u: true, xi: true, p: false, ab: false, xi_moderate: false, xi_ladder: false },
            Settings::FULL,
            tier.pick(1, 2),
            tier.pick(700, 5000),
        ),
        "C08" | "C09" => (
            Roles { u: true, xi: true, p: false, ab: false, xi_moderate: true, xi_ladder: true },
            Settings::FULL,
            tier.pick(1, 2),
            tier.pick(300, 2000),
        ),
        "C10" => (
            Roles { u: false, xi: true, p: true, ab: true, xi_moderate: true, xi_ladder: false },
            Settings::FULL,
            tier.pick(1, 2),
            0,
        ),
        "C13" => (
            Roles { u: false, xi: false, p: false, ab: true, xi_moderate: true, xi_ladder: false },
            Settings::META,
            2,
            tier.pick(3000, 60000),
        ),
        _ => unreachable!(),
    };
    let plan = Plan {
        cases,
        k,
        roles,
        settings,
        full_product_cap: cap,
        sector_all_up_to: match prop {
            "C13" => 0,
            _ => tier.pick(4, 4),
        },
        sector_stride: match prop {
            "C13" => 1000,
            _ => tier.pick(7, 3),
        },
        tropical_routing: matches!(prop, "C09" | "C10" | "C11"),
        points_per_case: match prop {
            "C10" => tier.pick(600, 1000),
            "C09" => tier.pick(900, 800),
            "C11" => tier.pick(1500, 800),
            _ => tier.pick(1500, 800),
        },
        basis_orbit: prop == "C10",
        basis_orbit_min_loops: 2,
    };
    let f: &PointFn = match prop {
        "C07" => &c07_point,
        "C08" => &c08_point,
        "C09" => &c09_point,
        "C10" => &c10_point,
        "C11" => &c11_point,
        "C13" => &c13_point,
        _ => unreachable!(),
    };
    let mut acc = explore(&plan, f);
    acc.maxima.insert("phase_seconds_explore".into(), elapsed());
    acc.merge(inplace_pass(&plan.cases, &plan.settings, f));
    acc.maxima.insert("phase_seconds_inplace".into(), elapsed());
    if prop != "C13" {
        acc.merge(large_pass(&plan, tier, f));
    }
    acc.maxima.insert("phase_seconds_large".into(), elapsed());
    acc.violations.sort_by(|a, b| (a.key.as_str(), a.what.as_str()).cmp(&(b.key.as_str(), b.what.as_str())));
    if prop == "C07" {
        match c07_nolog_pass(ctx) {
            Ok(a) => acc.merge(a),
            Err(e) => {
                eprintln!("[C07] MACHINERY: {e}");
                return 2;
            }
        }
        acc.violations.sort_by(|a, b| (a.key.as_str(), a.what.as_str()).cmp(&(b.key.as_str(), b.what.as_str())));
    }
    if prop == "C13" {
        // each component is computed FROM its pair in the caller's scalar type: dependence sets of a tracking scalar
        // (a detour through f64 is bit-identical for f64 callers and would be invisible above)
        use crate::scalar::{probe_reset, Tr};
        let t = par_for(plan.cases.len(), |i, acc| {
            let case = match Case::new(&plan.cases[i]) {
                Some(c) => c,
                None => return,
            };
            let r = match route(&case, &case.base_kin()) {
                Ok(r) => r,
                Err(_) => return,
            };
            let order: Vec<usize> = (0..case.g.ne()).collect();
            let x = sector_defaults(&case, &order);
            let xs: Vec<Tr> = x.iter().enumerate().map(|(k, &v)| Tr::new(v, 1u128 << k)).collect();
            let ed: EdgeData<Tr> = r.ed.iter().map(|(m, p)| (m.map(|m| Tr::new(m, 0)), p.iter().map(|&c| Tr::new(c, 0)).collect())).collect();
            probe_reset();
            if let Outcome::Ok(s) = r.sampler.sample_with(&xs, &ed, &Settings::META, &NullLogger) {
                if let Some(m) = &s.meta {
                    let tail = 2 * case.g.ne() - 1;
                    let d = case.g.dim;
                    for l in 0..case.nl {
                        for c in 0..d {
                            let idx = l * d + c;
                            let pair = tail + 2 * (idx / 2);
                            let want = (1u128 << pair) | (1u128 << (pair + 1));
                            acc.inc("dependence_sets_judged");
                            if m.q_vectors[l][c].deps != want {
                                acc.violate(
                                    pkey("C13", "component computed from its own pair", &case, &x),
                                    "each component is the Box-Muller transform OF its designated pair (in the caller's scalar type)",
                                    format!("component {idx} depends on inputs {:#x}, expected exactly its pair {want:#x}", m.q_vectors[l][c].deps),
                                    point_case(&case, &r.kin, &x, &Settings::META, json!({"prop": "C13"})),
                                );
                                return;
                            }
                        }
                    }
                }
            }
        });
        acc.merge(t);
        acc.violations.sort_by(|a, b| (a.key.as_str(), a.what.as_str()).cmp(&(b.key.as_str(), b.what.as_str())));
    }
    if prop == "C10" {
        // the Gaussian map in a scalar type wider than f64 (double-double end to end)
        acc.merge(crate::c14::dd_sampler_pass(ctx));
        acc.violations.sort_by(|a, b| (a.key.as_str(), a.what.as_str()).cmp(&(b.key.as_str(), b.what.as_str())));
    }
    if prop == "C08" || prop == "C09" {
        acc.merge(orbit_pass(ctx));
        acc.violations.sort_by(|a, b| (a.key.as_str(), a.what.as_str()).cmp(&(b.key.as_str(), b.what.as_str())));
    }
    sample_from_plan(&plan, &mut acc);
    let mut extra = serde_json::Map::new();
    if prop == "C13" || prop == "C10" {
        let cells = acc.hist.get("case_shape").map(|h| {
            let mut s = std::collections::BTreeSet::new();
            for k in h.keys() {
                // E?L?D? -> (D, L)
                let l = k.split('L').nth(1).unwrap_or("").split('D').next().unwrap_or("").to_string();
                let d = k.split('D').nth(1).unwrap_or("").to_string();
                s.insert((d, l));
            }
            s.len()
        });
        extra.insert("DL_cells_covered".into(), json!(cells));
    }
    let fin = Finish {
        level: "model_checking",
        rule: format!("stateless exploration of the sampler machine: for every admissible configuration of the family, every sector (removal order) is entered with midpoint selection answers; every answer sequence with at most {k} deviations from the defaults over the roles {:?} (full alphabet product when small) is executed on the real code and compared with the reference machine; states = (configuration, sector, answer-prefix) nodes = executions; transitions = answers consumed; non-trivial = executions judged by at least the main clause. Additional passes with the same point function: (i) SIZE LADDER - configurations beyond 6 loops / 8 edges / 64 signature entries (polygons to 10 edges, bananas and flowers to 8 loops, a 13-edge 5-loop chorded cycle; thorough: to 12 edges, 9 loops, a 17-edge 4-loop graph) on a fixed subset of sectors with strided one-deviation answer sequences; (ii) IN-PLACE HISTORIES - on a fresh thread a different sampler is sampled, its memory slot is overwritten by the configuration under test, which is then sampled and judged (every configuration behind two different predecessors); (iii) every 9th configuration again with all momenta and masses scaled by 2^-30 and 2^24", (plan.roles.u, plan.roles.xi, plan.roles.p, plan.roles.ab)),
        states: acc.get("executions") + acc.get("orbit_executions"),
        transitions: acc.get("answers_consumed") + acc.get("orbit_answers_consumed"),
        traces: acc.get("points_judged"),
        evaluations: acc.get("executions") + acc.get("orbit_executions"),
        distinct_nontrivial: acc.get("points_judged"),
        exhaustive: true,
        bounds: json!({"deviation_bound": k, "full_product_cap": cap, "cases": plan.cases.len(), "sector_stride_above_E4": plan.sector_stride, "tau0": "2^-52*2^14"}),
        assumptions: vec![
            "reference machine and exact Symanzik polynomials of the oracle crate".into(),
            "domain clauses G1-G5 of DESIGN §4.3; excluded points are counted in coverage.counters".into(),
        ],
        extra,
    };
    finish(ctx, &acc, fin)
}

/// SIZE LADDER pass: the configurations of `large_cases` (beyond 6 loops, 8 edges, 64 signature entries) on the fixed sector
/// subset; per sector the default answers plus an evenly strided selection of the one-deviation answer sequences of the plan's
/// roles (at most `max_pts`), in the base routing and - if the plan uses it - the sector's tropical routing.
pub fn large_pass(plan: &Plan, tier: Tier, f: &PointFn) -> Acc {
    let specs = large_cases(tier);
    let max_pts = tier.pick(10usize, 60);
    // the oracle data of each configuration once, in parallel; then one work item per (configuration, sector)
    let cases: Vec<Option<Case>> = std::thread::scope(|sc| {
        let hs: Vec<_> = specs.iter().map(|s| sc.spawn(move || Case::new(s))).collect();
        hs.into_iter().map(|h| h.join().ok().flatten()).collect()
    });
    let mut items: Vec<(usize, Vec<usize>)> = vec![];
    let mut head = Acc::new();
    for (ci, c) in cases.iter().enumerate() {
        match c {
            None => head.inc("large_cases_not_admissible"),
            Some(case) => {
                head.inc("large_cases");
                head.inc("cases");
                if case.generic {
                    head.inc("cases_generic_kinematics");
                }
                head.hist("large_case_shape", &format!("{}-E{}L{}D{}", case.spec.label, case.g.ne(), case.nl, case.g.dim));
                head.hist("case_shape", &format!("E{}L{}D{}", case.g.ne(), case.nl, case.g.dim));
                let ne = case.g.ne();
                for order in sector_subset(ne, tier == Tier::Thorough && ne <= 10) {
                    items.push((ci, order));
                }
            }
        }
    }
    // longest first
    items.sort_by_key(|(ci, _)| {
        let c = cases[*ci].as_ref().unwrap();
        std::cmp::Reverse(c.nl * c.nl * c.g.ne())
    });
    let mut acc = par_for(items.len(), |item, acc| {
        let (ci, order) = &items[item];
        let case = cases[*ci].as_ref().unwrap();
        if time_up() {
            acc.inc("items_skipped_by_time_cap");
            return;
        }
        let base = match route_via(case, &case.base_kin()) {
            Ok(r) => r,
            Err(_) => {
                acc.inc("large_sectors_not_built");
                return;
            }
        };
        let t_case = std::time::Instant::now();
        acc.inc("sectors");
        acc.inc("large_sectors");
        let mut routings: Vec<Routed> = vec![];
        if plan.tropical_routing {
            if let Ok(r) = route_via(case, &case.tropical_kin(order)) {
                routings.push(r);
            }
        }
        let all = sector_points(case, order, 1, &plan.roles);
        let step = ((all.len() + max_pts - 1) / max_pts).max(1);
        for (pi, (x, ndev)) in all.iter().enumerate() {
            if pi != 0 && pi % step != 0 {
                continue;
            }
            for r in std::iter::once(&base).chain(routings.iter()) {
                let po = observe_point(case, r, x, &plan.settings);
                acc.inc("executions");
                acc.inc("large_executions");
                acc.add("answers_consumed", x.len() as u64);
                acc.hist("outcome", &po.out.kind());
                f(case, r, &po, *ndev, acc);
            }
        }
        acc.max(&format!("sector_seconds[E{}L{}]", case.g.ne(), case.nl), t_case.elapsed().as_secs_f64());
    });
    acc.merge(head);
    acc
}

/// A history of length two at ONE memory address (all properties of the sampler engine): sampler A is sampled, the slot it
/// lives in is overwritten by sampler B - another configuration (other dod, dimension, loop number, edge count) - and B is
/// sampled there and judged by the property's own point function. Every case is B once behind its list neighbour and once
/// behind a case 7 places away; the sector of B is the reversed identity so that this pass does not repeat `explore`.
pub fn inplace_pass(cases: &[CaseSpec], st: &Settings, f: &PointFn) -> Acc {
    let n = cases.len();
    par_for(n, |i, acc| {
        for off in [1usize, 7] {
            if time_up() {
                acc.inc("items_skipped_by_time_cap");
                return;
            }
            let j = (i + off) % n;
            if j == i {
                continue;
            }
            // every history runs on a FRESH thread: thread-local state starts pristine, so the history (A sampled, slot
            // overwritten by B, B sampled) is complete and a replay reproduces it exactly
            std::thread::scope(|sc| {
                let h = sc.spawn(|| inplace_pair(&cases[j], &cases[i], st, f, acc));
                let _ = h.join();
            });
        }
    })
}

fn inplace_pair(sa: &CaseSpec, sb: &CaseSpec, st: &Settings, f: &PointFn, acc: &mut Acc) {
    let (ca, cb) = match (Case::new(sa), Case::new(sb)) {
        (Some(a), Some(b)) => (a, b),
        _ => return,
    };
    let mut slot: Vec<Routed> = match route(&ca, &ca.base_kin()) {
        Ok(r) => vec![r],
        Err(_) => return,
    };
    let oa: Vec<usize> = (0..ca.g.ne()).collect();
    let xa = sector_defaults(&ca, &oa);
    let _ = slot[0].sampler.sample(&xa, &slot[0].ed, st);
    slot[0] = match route(&cb, &cb.base_kin()) {
        Ok(r) => r,
        Err(_) => return,
    };
    let ob: Vec<usize> = (0..cb.g.ne()).rev().collect();
    let xb = sector_defaults(&cb, &ob);
    let po = observe_point(&cb, &slot[0], &xb, st);
    acc.inc("inplace_replacements");
    acc.inc("executions");
    acc.add("answers_consumed", xb.len() as u64);
    let nv = acc.violations.len();
    f(&cb, &slot[0], &po, 0, acc);
    // a violation found here needs its history: the replay file carries the predecessor that occupied the slot
    for v in acc.violations.iter_mut().skip(nv) {
        if let Some(o) = v.replay.as_object_mut() {
            o.insert(
                "inplace_predecessor".into(),
                json!({"graph": graph_json(&ca.g), "mom_variant": ca.spec.mom_variant, "mass_variant": ca.spec.mass_variant, "x": jf_vec(&xa)}),
            );
        }
        v.what = format!("{} [after a different sampler was sampled in the same memory slot]", v.what);
    }
}

fn sample_from_plan(plan: &Plan, acc: &mut Acc) {
    if let Some(spec) = plan.cases.iter().find_map(|s| Case::new(s).map(|c| (s, c))) {
        let (s, c) = spec;
        let order: Vec<usize> = (0..c.g.ne()).collect();
        let x = sector_defaults(&c, &order);
        acc.sample(json!({"graph": graph_json(&s.g), "sector": order, "x_default": x}));
    }
}

// ===================================================================================================
// routing orbit (C08, C09): differential across cycle bases, orientations, offsets
// ===================================================================================================

pub fn orbit_of(kin: &Kin, pairs: bool, offsets: bool, dim: usize) -> Vec<(String, Kin)> {
    let nl = kin.nl();
    let mut res: Vec<(String, Kin)> = vec![("base".into(), kin.clone())];
    let el = elementary_unimodular(nl);
    for (i, m) in el.iter().enumerate() {
        res.push((format!("basis{i}"), kin.change_basis(m)));
    }
    if pairs {
        for (i, a) in el.iter().enumerate() {
            for (j, b) in el.iter().enumerate() {
                if (i + 2 * j) % 5 == 0 {
                    res.push((format!("basis{i}x{j}"), kin.change_basis(&mat_mul_i(a, b))));
                }
            }
        }
    }
    let ne = kin.sig.len();
    for e in 0..ne {
        res.push((format!("flip{e}"), kin.flip(e)));
    }
    if pairs {
        for e in 0..ne {
            for f in e + 1..ne {
                res.push((format!("flip{e},{f}"), kin.flip(e).flip(f)));
            }
        }
    }
    if offsets {
        let a1: Vec<Vec<Q>> = (0..nl).map(|l| (0..dim).map(|c| if c == 0 && l == 0 { qi(1) } else { qi(0) }).collect()).collect();
        let a2: Vec<Vec<Q>> = (0..nl).map(|l| (0..dim).map(|c| if c % 2 == 0 { qr(1 + l as i64, 2) } else { qi(-3) }).collect()).collect();
        res.push(("offset-e1".into(), kin.offset(&a1)));
        res.push(("offset-mixed".into(), kin.offset(&a2)));
        res.push(("offset+basis".into(), kin.offset(&a2).change_basis(&el[el.len() - 1])));
    }
    res
}

pub fn orbit_pass(ctx: &Ctx) -> Acc {
    let tier = ctx.tier;
    let prop = ctx.prop.clone();
    let mut cases: Vec<CaseSpec> = fam_for(tier, &prop).into_iter().filter(|c| {
        let l = c.g.loop_number(c.g.full());
        l >= 1 && (tier == Tier::Thorough || c.g.ne() <= 3 || c.label == "named")
    }).collect();
    // banana / flower with up to 5 loops
    cases.extend(dl_grid_cases().into_iter().filter(|c| c.g.dim == 3 || c.g.dim == 4));
    // longest first (dynamic hand-out of work items)
    cases.sort_by_key(|c| {
        let l = c.g.loop_number(c.g.full());
        std::cmp::Reverse(l * l * l * c.g.ne() * c.g.ne())
    });
    let st = Settings::FULL;
    par_for(cases.len(), |i, acc| {
        let case = match Case::new(&cases[i]) {
            Some(c) => c,
            None => return,
        };
        let base_kin = case.base_kin();
        let mut orbit = orbit_of(&base_kin, tier == Tier::Thorough && case.nl <= 2, prop == "C09", case.g.dim);
        // budget: many-loop graphs keep an evenly spaced subset of the orbit
        let keep = match case.nl {
            0..=2 => usize::MAX,
            3 => tier.pick(14, 40),
            _ => tier.pick(6, 12),
        };
        if orbit.len() > keep {
            let step = orbit.len() as f64 / keep as f64;
            let mut picked = vec![];
            let mut t = 0.0f64;
            while (t as usize) < orbit.len() && picked.len() < keep {
                picked.push(orbit[t as usize].clone());
                t += step;
            }
            orbit = picked;
        }
        let routed: Vec<(String, Routed)> = orbit
            .into_iter()
            .filter_map(|(n, k)| {
                debug_assert!(k.conserves());
                route_via(&case, &k).ok().map(|r| (n, r))
            })
            .collect();
        if routed.is_empty() {
            return;
        }
        acc.inc("orbit_cases");
        acc.add("orbit_routings", routed.len() as u64);
        let ne = case.g.ne();
        let sectors = all_sectors(ne);
        let roles = Roles { u: false, xi: true, p: false, ab: false, xi_moderate: true, xi_ladder: prop == "C08" || tier == Tier::Thorough };
        let max_sectors = (tier.pick(24, 120) / (case.nl * case.nl).max(1)).max(2);
        let sstride = (sectors.len() + max_sectors - 1) / max_sectors;
        for (si, order) in sectors.iter().enumerate() {
            if si % sstride != 0 {
                continue;
            }
            if time_up() {
                acc.inc("items_skipped_by_time_cap");
                break;
            }
            for (x, _) in sector_points(&case, order, 1, &roles) {
                // one sampler object reused with DIFFERENT edge data: the base routing's sampler is sampled with its own
                // shifts and then with the shifts of every orbit element that has the same signature (loop-momentum offsets)
                if prop == "C09" {
                    let base_r = &routed[0].1;
                    for (_, r) in routed.iter().skip(1) {
                        if r.kin.sig != base_r.kin.sig {
                            continue;
                        }
                        let _ = base_r.sampler.sample(&x, &base_r.ed, &st);
                        let (out, log) = base_r.sampler.sample_logged(&x, &r.ed, &st);
                        let po = PointObs { x: x.clone(), out, log, rr: oracle::refsampler::run(&case.rt, &x) };
                        acc.inc("orbit_same_sampler_reuse");
                        c09_point(&case, r, &po, 0, acc);
                    }
                }
                let mut reference: Option<(f64, f64, f64, Vec<u64>, f64, f64)> = None;
                for (name, r) in &routed {
                    let po = observe_point(&case, r, &x, &st);
                    acc.inc("orbit_executions");
                    acc.add("orbit_answers_consumed", x.len() as u64);
                    let s = match &po.out {
                        Outcome::Ok(s) => s,
                        _ => continue,
                    };
                    let xlog = match &po.log.x {
                        Some(x) => x,
                        None => continue,
                    };
                    let ex = match exact_at(&case, &r.kin, xlog) {
                        Some(e) => e,
                        None => continue,
                    };
                    // each routing individually against the exact polynomials (so a shared error cannot hide)
                    if prop == "C08" {
                        c08_point(&case, r, &po, 0, acc);
                    } else {
                        c09_point(&case, r, &po, 0, acc);
                    }
                    let xb: Vec<u64> = xlog.iter().map(|v| v.to_bits()).collect();
                    let tol_u = TAU0 * ex.cond1;
                    let tol_v = TAU0 * ex.kappa_s * ex.r_cancel.max(1.0);
                    match &reference {
                        None => {
                            // the reference routing must itself be in domain
                            if tol_u <= 0.01 && (prop == "C08" || tol_v <= 0.01) {
                                reference = Some((s.u, s.v, s.jacobian, xb, tol_u, tol_v));
                            }
                        }
                        Some((u0, v0, j0, xb0, tu0, tv0)) => {
                            acc.inc("orbit_pairs_compared");
                            if *xb0 != xb {
                                viol(acc, &prop, "Feynman parameters independent of routing", &case, r, &po, &st, format!("routing {name}: logged parameters differ bitwise from the base routing"));
                            }
                            if tol_u <= 0.01 && !(((s.u - u0) / u0).abs() <= 2.0 * (tol_u + tu0)) {
                                viol(acc, &prop, "u independent of routing", &case, r, &po, &st, format!("routing {name}: u = {:e} vs base {u0:e}", s.u));
                            }
                            if prop == "C09" && tol_v <= 0.01 && tol_u <= 0.01 {
                                let tv = 2.0 * (tol_v + tv0);
                                if !(((s.v - v0) / v0).abs() <= tv) {
                                    viol(acc, &prop, "v independent of routing", &case, r, &po, &st, format!("routing {name}: v = {:e} vs base {v0:e} (tol {tv:e})", s.v));
                                }
                                let tj = (case.g.dim as f64 / 2.0 + case.dod + 1.0) * 2.0 * (tol_v + tv0 + tol_u + tu0);
                                if tj <= 0.05 && !(((s.jacobian - j0) / j0).abs() <= tj) {
                                    viol(acc, &prop, "jacobian independent of routing", &case, r, &po, &st, format!("routing {name}: jacobian = {:e} vs base {j0:e}", s.jacobian));
                                }
                            }
                        }
                    }
                }
            }
        }
    })
}

pub fn replay_point(ctx: &Ctx, v: &Value) -> i32 {
    let g = graph_from_json(&v["graph"]);
    let spec = CaseSpec {
        g,
        mom_variant: v["mom_variant"].as_u64().unwrap_or(0) as usize,
        mass_variant: v["mass_variant"].as_u64().unwrap_or(0) as usize,
        label: "replay".into(),
    };
    let case = match Case::new(&spec) {
        Some(c) => c,
        None => {
            eprintln!("replay: configuration not admissible for the oracle");
            return 2;
        }
    };
    let kin = kin_from_json(&v["kin"]);
    let x = unjf_vec(&v["x"]);
    let st = settings_from_json(&v["settings"]);
    // a history of length two at one address: the predecessor is sampled in the slot first, then replaced
    let mut slot: Vec<Routed> = vec![];
    if let Some(pv) = v.get("inplace_predecessor") {
        let pspec = CaseSpec {
            g: graph_from_json(&pv["graph"]),
            mom_variant: pv["mom_variant"].as_u64().unwrap_or(0) as usize,
            mass_variant: pv["mass_variant"].as_u64().unwrap_or(0) as usize,
            label: "replay-predecessor".into(),
        };
        if let Some(pc) = Case::new(&pspec) {
            if let Ok(pr) = route(&pc, &pc.base_kin()) {
                let px = unjf_vec(&pv["x"]);
                slot.push(pr);
                let _ = slot[0].sampler.sample(&px, &slot[0].ed, &st);
                eprintln!("replay: predecessor sampled in the slot");
            }
        }
    }
    let r_new = match route(&case, &kin) {
        Ok(r) => r,
        Err(e) => {
            eprintln!("replay: build failed: {e}");
            return 1;
        }
    };
    if slot.is_empty() {
        slot.push(r_new);
    } else {
        slot[0] = r_new;
    }
    let r = &slot[0];
    let po = observe_point(&case, &r, &x, &st);
    eprintln!("replay {}: x = {:?}", ctx.prop, x);
    eprintln!("  outcome: {:?}", po.out);
    eprintln!("  log: {:?}", po.log);
    if let Some(rr) = &po.rr {
        eprintln!("  reference: order {:?} margin {:e} ln_x {:?}", rr.order, rr.margin, rr.ln_x);
    }
    let mut acc = Acc::new();
    if v["extra"]["dd_sampler"].as_bool().unwrap_or(false) {
        crate::c14::check_dd_sample(&ctx.prop, &case, r, &x, &mut acc);
    }
    match ctx.prop.as_str() {
        "C07" => c07_point(&case, &r, &po, 0, &mut acc),
        "C08" => c08_point(&case, &r, &po, 0, &mut acc),
        "C09" => c09_point(&case, &r, &po, 0, &mut acc),
        "C10" => c10_point(&case, &r, &po, 0, &mut acc),
        "C11" => c11_point(&case, &r, &po, 0, &mut acc),
        "C13" => c13_point(&case, &r, &po, 0, &mut acc),
        "C02" => c02_point(&case, &r, &po, 0, &mut acc),
        "C12" => c12_binding_point(&case, &r, &po, 0, &mut acc),
        "C16" => c16b_point(&case, &r, &po, &st, &mut acc),
        "C18" => {
            let d = case.g.dim;
            // the violating sampler may have been built with a scaled loop signature
            let scaled_sampler = v["extra"]["signature_times"].as_i64().and_then(|mul| {
                let scaled: Vec<Vec<isize>> = r.kin.sig.iter().map(|row| row.iter().map(|&x| x as isize * mul as isize).collect()).collect();
                match build(&r.graph, &scaled) {
                    BuildOutcome::Ok(s) => Some(s),
                    _ => None,
                }
            });
            let subject: &Sampler = scaled_sampler.as_ref().unwrap_or(&r.sampler);
            let want = outcome_bits(&subject.sample(&x, &r.ed, &st));
            for (name, s2) in [
                ("json", Sampler::from_json_str(d, &subject.to_json_string())),
                ("cbor", Sampler::from_cbor(d, &subject.to_cbor())),
                ("positional", subject.to_seq_value().and_then(|v| Sampler::from_seq_value(d, v))),
            ] {
                match s2 {
                    Ok(s2) => {
                        if outcome_bits(&s2.sample(&x, &r.ed, &st)) != want {
                            acc.violate("replay".into(), "restored sampler produces bit-identical samples", format!("sampler restored through {name} samples differently"), json!({}));
                        }
                    }
                    Err(e) => acc.violate("replay".into(), "deserialises", format!("{name}: {e}"), json!({})),
                }
            }
        }
        _ => {}
    }
    for v in &acc.violations {
        eprintln!("  reproduced: [{}] {}", v.clause, v.what);
    }
    if acc.violations.is_empty() {
        eprintln!("  no violation reproduced");
        0
    } else {
        1
    }
}
