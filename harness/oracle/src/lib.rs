//! Reference model for the momtrop checks. Deliberately has NO dependency on momtrop:
//! everything here is written from the definitions (graph theory, Symanzik polynomials,
//! tropical sampling papers), in exact rational arithmetic wherever a value is algebraic.
pub mod graph;
pub mod kin;
pub mod linalg;
pub mod num;
pub mod refsampler;
pub mod special;
pub mod symanzik;

pub use num::{q_abs, q_to_f64, qf, qi, qr, Q};
