//! Observation layer on the real momtrop: building samplers, reading the table through serde,
//! sampling with any scalar type, capturing the log. Every call is wrapped in catch_unwind.
use crate::common::*;
use momtrop::float::MomTropFloat;
use momtrop::log::Logger;
use momtrop::vector::Vector;
use momtrop::{Edge, Graph, SampleGenerator, TropicalSampleResult, TropicalSamplingSettings};
use oracle::graph::OGraph;
use serde::{Deserialize, Serialize};
use serde_json::{json, Value};
use std::cell::RefCell;
use std::panic::{catch_unwind, AssertUnwindSafe};

/// serde_json renders NaN / inf as null: read them back as NaN so that a non-finite field is an observation, not a failure
fn nullable_f64<'de, D: serde::Deserializer<'de>>(d: D) -> Result<f64, D::Error> {
    Ok(Option::<f64>::deserialize(d)?.unwrap_or(f64::NAN))
}

#[derive(Deserialize, Serialize, Clone, Debug, PartialEq)]
pub struct MEdge {
    pub edge_id: u8,
    pub left: u8,
    pub right: u8,
    #[serde(deserialize_with = "nullable_f64")]
    pub weight: f64,
    pub is_massive: bool,
}
#[derive(Deserialize, Serialize, Clone, Debug, PartialEq)]
pub struct MGraph {
    #[serde(deserialize_with = "nullable_f64")]
    pub dod: f64,
    pub topology: Vec<MEdge>,
    pub num_massive_edges: usize,
    pub external_vertices: Vec<u8>,
    pub num_loops: usize,
}
#[derive(Deserialize, Serialize, Clone, Debug, PartialEq)]
pub struct MEntry {
    pub loop_number: u8,
    pub mass_momentum_spanning: bool,
    #[serde(deserialize_with = "nullable_f64")]
    pub j_function: f64,
    #[serde(deserialize_with = "nullable_f64")]
    pub generalized_dod: f64,
}
#[derive(Deserialize, Serialize, Clone, Debug, PartialEq)]
pub struct MTable {
    pub table: Vec<MEntry>,
    pub dimension: usize,
    pub tropical_graph: MGraph,
    #[serde(deserialize_with = "nullable_f64")]
    pub cached_factor: f64,
}
#[derive(Deserialize, Serialize, Clone, Debug, PartialEq)]
pub struct MGen {
    pub loop_signature: Vec<Vec<isize>>,
    pub table: MTable,
}

pub enum Sampler {
    D1(SampleGenerator<1>),
    D2(SampleGenerator<2>),
    D3(SampleGenerator<3>),
    D4(SampleGenerator<4>),
    D5(SampleGenerator<5>),
    D6(SampleGenerator<6>),
    D7(SampleGenerator<7>),
    D8(SampleGenerator<8>),
    D9(SampleGenerator<9>),
    D10(SampleGenerator<10>),
    D11(SampleGenerator<11>),
}

#[macro_export]
macro_rules! with_sampler {
    ($s:expr, $g:ident => $body:expr) => {
        match $s {
            $crate::obs::Sampler::D1($g) => $body,
            $crate::obs::Sampler::D2($g) => $body,
            $crate::obs::Sampler::D3($g) => $body,
            $crate::obs::Sampler::D4($g) => $body,
            $crate::obs::Sampler::D5($g) => $body,
            $crate::obs::Sampler::D6($g) => $body,
            $crate::obs::Sampler::D7($g) => $body,
            $crate::obs::Sampler::D8($g) => $body,
            $crate::obs::Sampler::D9($g) => $body,
            $crate::obs::Sampler::D10($g) => $body,
            $crate::obs::Sampler::D11($g) => $body,
        }
    };
}

pub fn to_graph(g: &OGraph) -> Graph {
    Graph {
        edges: g
            .edges
            .iter()
            .enumerate()
            .map(|(i, &(a, b))| Edge {
                vertices: (a, b),
                is_massive: g.massive[i],
                weight: g.weights[i],
            })
            .collect(),
        externals: g.externals.clone(),
    }
}

pub enum BuildOutcome {
    Ok(Sampler),
    Rejected(String),
    Panicked(String),
}

/// Build with the real `Graph::build_sampler::<D>`.
pub fn build(g: &OGraph, sig: &[Vec<isize>]) -> BuildOutcome {
    let dim = g.dim;
    let sig = sig.to_vec();
    let graph = to_graph(g);
    let r = catch_unwind(AssertUnwindSafe(move || -> Result<Sampler, String> {
        Ok(match dim {
            1 => Sampler::D1(graph.build_sampler::<1>(sig)?),
            2 => Sampler::D2(graph.build_sampler::<2>(sig)?),
            3 => Sampler::D3(graph.build_sampler::<3>(sig)?),
            4 => Sampler::D4(graph.build_sampler::<4>(sig)?),
            5 => Sampler::D5(graph.build_sampler::<5>(sig)?),
            6 => Sampler::D6(graph.build_sampler::<6>(sig)?),
            7 => Sampler::D7(graph.build_sampler::<7>(sig)?),
            8 => Sampler::D8(graph.build_sampler::<8>(sig)?),
            9 => Sampler::D9(graph.build_sampler::<9>(sig)?),
            10 => Sampler::D10(graph.build_sampler::<10>(sig)?),
            11 => Sampler::D11(graph.build_sampler::<11>(sig)?),
            _ => panic!("harness: dimension {dim} not dispatched"),
        })
    }));
    match r {
        Ok(Ok(s)) => BuildOutcome::Ok(s),
        Ok(Err(e)) => BuildOutcome::Rejected(e),
        Err(p) => BuildOutcome::Panicked(panic_message(p)),
    }
}

/// default signature when the routing is irrelevant (table checks): E x L of zeros with L >= 1
pub fn dummy_sig(g: &OGraph) -> Vec<Vec<isize>> {
    let l = g.loop_number(g.full()).max(1);
    vec![vec![0isize; l]; g.ne()]
}

impl Sampler {
    pub fn dim(&self) -> usize {
        match self {
            Sampler::D1(_) => 1,
            Sampler::D2(_) => 2,
            Sampler::D3(_) => 3,
            Sampler::D4(_) => 4,
            Sampler::D5(_) => 5,
            Sampler::D6(_) => 6,
            Sampler::D7(_) => 7,
            Sampler::D8(_) => 8,
            Sampler::D9(_) => 9,
            Sampler::D10(_) => 10,
            Sampler::D11(_) => 11,
        }
    }
    /// the table as serde shows it (None when a value is not representable, e.g. NaN -> null)
    pub fn observe(&self) -> Result<MGen, String> {
        let v: Value =
            with_sampler!(self, s => serde_json::to_value(s)).map_err(|e| format!("to_value: {e}"))?;
        serde_json::from_value::<MGen>(v).map_err(|e| format!("from_value: {e}"))
    }
    pub fn to_json_string(&self) -> String {
        with_sampler!(self, s => serde_json::to_string(s)).expect("serialise")
    }
    pub fn to_json_value(&self) -> Value {
        with_sampler!(self, s => serde_json::to_value(s)).expect("serialise")
    }
    pub fn from_json_str(dim: usize, s: &str) -> Result<Sampler, String> {
        let e = |e: serde_json::Error| e.to_string();
        Ok(match dim {
            1 => Sampler::D1(serde_json::from_str(s).map_err(e)?),
            2 => Sampler::D2(serde_json::from_str(s).map_err(e)?),
            3 => Sampler::D3(serde_json::from_str(s).map_err(e)?),
            4 => Sampler::D4(serde_json::from_str(s).map_err(e)?),
            5 => Sampler::D5(serde_json::from_str(s).map_err(e)?),
            6 => Sampler::D6(serde_json::from_str(s).map_err(e)?),
            7 => Sampler::D7(serde_json::from_str(s).map_err(e)?),
            8 => Sampler::D8(serde_json::from_str(s).map_err(e)?),
            9 => Sampler::D9(serde_json::from_str(s).map_err(e)?),
            10 => Sampler::D10(serde_json::from_str(s).map_err(e)?),
            11 => Sampler::D11(serde_json::from_str(s).map_err(e)?),
            _ => return Err("dim".into()),
        })
    }
    /// third format: value tree with structs written positionally (as sequences)
    pub fn to_seq_value(&self) -> Result<Value, String> {
        with_sampler!(self, s => crate::seqfmt::to_seq_value(s)).map_err(|e| e.to_string())
    }
    pub fn from_seq_value(dim: usize, v: Value) -> Result<Sampler, String> {
        Ok(match dim {
            1 => Sampler::D1(crate::seqfmt::from_seq_value(v)?),
            2 => Sampler::D2(crate::seqfmt::from_seq_value(v)?),
            3 => Sampler::D3(crate::seqfmt::from_seq_value(v)?),
            4 => Sampler::D4(crate::seqfmt::from_seq_value(v)?),
            5 => Sampler::D5(crate::seqfmt::from_seq_value(v)?),
            6 => Sampler::D6(crate::seqfmt::from_seq_value(v)?),
            7 => Sampler::D7(crate::seqfmt::from_seq_value(v)?),
            8 => Sampler::D8(crate::seqfmt::from_seq_value(v)?),
            9 => Sampler::D9(crate::seqfmt::from_seq_value(v)?),
            10 => Sampler::D10(crate::seqfmt::from_seq_value(v)?),
            11 => Sampler::D11(crate::seqfmt::from_seq_value(v)?),
            _ => return Err("dim".into()),
        })
    }
    pub fn to_cbor(&self) -> Vec<u8> {
        let mut buf = vec![];
        with_sampler!(self, s => ciborium::ser::into_writer(s, &mut buf)).expect("cbor");
        buf
    }
    pub fn from_cbor(dim: usize, b: &[u8]) -> Result<Sampler, String> {
        fn de<T: serde::de::DeserializeOwned>(b: &[u8]) -> Result<T, String> {
            ciborium::de::from_reader(b).map_err(|e| e.to_string())
        }
        Ok(match dim {
            1 => Sampler::D1(de(b)?),
            2 => Sampler::D2(de(b)?),
            3 => Sampler::D3(de(b)?),
            4 => Sampler::D4(de(b)?),
            5 => Sampler::D5(de(b)?),
            6 => Sampler::D6(de(b)?),
            7 => Sampler::D7(de(b)?),
            8 => Sampler::D8(de(b)?),
            9 => Sampler::D9(de(b)?),
            10 => Sampler::D10(de(b)?),
            11 => Sampler::D11(de(b)?),
            _ => return Err("dim".into()),
        })
    }
    pub fn clone_sampler(&self) -> Sampler {
        match self {
            Sampler::D1(s) => Sampler::D1(s.clone()),
            Sampler::D2(s) => Sampler::D2(s.clone()),
            Sampler::D3(s) => Sampler::D3(s.clone()),
            Sampler::D4(s) => Sampler::D4(s.clone()),
            Sampler::D5(s) => Sampler::D5(s.clone()),
            Sampler::D6(s) => Sampler::D6(s.clone()),
            Sampler::D7(s) => Sampler::D7(s.clone()),
            Sampler::D8(s) => Sampler::D8(s.clone()),
            Sampler::D9(s) => Sampler::D9(s.clone()),
            Sampler::D10(s) => Sampler::D10(s.clone()),
            Sampler::D11(s) => Sampler::D11(s.clone()),
        }
    }
    pub fn get_dimension(&self) -> Result<usize, String> {
        catch_unwind(AssertUnwindSafe(|| with_sampler!(self, s => s.get_dimension())))
            .map_err(panic_message)
    }
    pub fn get_dod(&self) -> f64 {
        with_sampler!(self, s => s.get_dod())
    }
    pub fn get_num_edges(&self) -> usize {
        with_sampler!(self, s => s.get_num_edges())
    }
    pub fn edge_weights(&self) -> Vec<f64> {
        with_sampler!(self, s => s.iter_edge_weights().collect())
    }
    pub fn get_smallest_dod(&self) -> f64 {
        with_sampler!(self, s => s.get_smallest_dod())
    }
}

/// Captures what the sampler hands to the logger.
#[derive(Default)]
pub struct CaptureLogger {
    pub records: RefCell<Vec<(String, Value)>>,
}
impl Logger for CaptureLogger {
    fn write<T: Serialize>(&self, msg: &str, data: &T) {
        let v = serde_json::to_value(data).unwrap_or(Value::Null);
        self.records.borrow_mut().push((msg.to_string(), v));
    }
}
pub struct NullLogger;
impl Logger for NullLogger {
    fn write<T: Serialize>(&self, _msg: &str, _data: &T) {}
}

#[derive(Clone, Debug, Default)]
pub struct LogRec {
    pub x_unrescaled: Option<Vec<f64>>,
    pub x: Option<Vec<f64>>,
    pub u_trop_nr: Option<f64>,
    pub v_trop_nr: Option<f64>,
    pub lambda: Option<f64>,
    pub u: Option<f64>,
    pub v: Option<f64>,
    pub keys: Vec<String>,
    /// a logged number that was NaN/inf (serde_json renders them as null)
    pub non_finite: bool,
}

impl CaptureLogger {
    pub fn into_rec(self) -> LogRec {
        let mut r = LogRec::default();
        let vecf = |v: &Value, nf: &mut bool| -> Option<Vec<f64>> {
            let a = v.as_array()?;
            let mut out = vec![];
            for x in a {
                match x.as_f64() {
                    Some(f) => out.push(f),
                    None => {
                        *nf = true;
                        out.push(f64::NAN)
                    }
                }
            }
            Some(out)
        };
        let f = |v: &Value, nf: &mut bool| -> Option<f64> {
            match v.as_f64() {
                Some(f) => Some(f),
                None => {
                    *nf = true;
                    Some(f64::NAN)
                }
            }
        };
        for (k, v) in self.records.into_inner() {
            let mut nf = false;
            match k.as_str() {
                "momtrop_feynman_parameter_no_rescaling" => r.x_unrescaled = vecf(&v, &mut nf),
                "momtrop_feynman_parameter" => r.x = vecf(&v, &mut nf),
                "momtrop_u_trop_no_rescaling" => r.u_trop_nr = f(&v, &mut nf),
                "momtrop_v_trop_no_rescaling" => r.v_trop_nr = f(&v, &mut nf),
                "momtrop_lambda" => r.lambda = f(&v, &mut nf),
                "momtrop_u" => r.u = f(&v, &mut nf),
                "momtrop_v" => r.v = f(&v, &mut nf),
                _ => {}
            }
            r.non_finite |= nf;
            r.keys.push(k);
        }
        r
    }
}

#[derive(Clone, Debug)]
pub struct DecompOut<T> {
    pub determinant: T,
    pub inverse: Vec<T>,
    pub q_transposed: Vec<T>,
    pub q_transposed_inverse: Vec<T>,
}
#[derive(Clone, Debug)]
pub struct MetaOut<T> {
    pub q_vectors: Vec<Vec<T>>,
    pub lambda: T,
    pub nl: usize,
    pub l_matrix: Vec<T>,
    pub decomp: DecompOut<T>,
    pub u_vectors: Vec<Vec<T>>,
    pub shift: Vec<Vec<T>>,
}
#[derive(Clone, Debug)]
pub struct SampleOut<T> {
    pub loop_momenta: Vec<Vec<T>>,
    pub u_trop: T,
    pub v_trop: T,
    pub u: T,
    pub v: T,
    pub jacobian: T,
    pub meta: Option<MetaOut<T>>,
}

#[derive(Clone, Debug)]
pub enum Outcome<T> {
    Ok(SampleOut<T>),
    /// "ZeroDet" | "Unstable" | "GammaError" (Debug rendering of the error)
    Err(String),
    Panic(String),
}

impl<T> Outcome<T> {
    pub fn ok(&self) -> Option<&SampleOut<T>> {
        match self {
            Outcome::Ok(s) => Some(s),
            _ => None,
        }
    }
    pub fn kind(&self) -> String {
        match self {
            Outcome::Ok(_) => "Ok".into(),
            Outcome::Err(e) => format!("Err({e})"),
            Outcome::Panic(_) => "Panic".into(),
        }
    }
}

fn vecs<T: MomTropFloat, const D: usize>(v: &[Vector<T, D>]) -> Vec<Vec<T>> {
    v.iter().map(|x| x.get_elements().to_vec()).collect()
}

fn mat<T: MomTropFloat>(m: &momtrop::matrix::SquareMatrix<T>) -> Vec<T> {
    let n = m.get_dim();
    let mut out = Vec::with_capacity(n * n);
    for i in 0..n {
        for j in 0..n {
            out.push(m[(i, j)].clone());
        }
    }
    out
}

fn convert<T: MomTropFloat, const D: usize>(r: TropicalSampleResult<T, D>) -> SampleOut<T> {
    SampleOut {
        loop_momenta: vecs(&r.loop_momenta),
        u_trop: r.u_trop,
        v_trop: r.v_trop,
        u: r.u,
        v: r.v,
        jacobian: r.jacobian,
        meta: r.metadata.map(|m| MetaOut {
            q_vectors: vecs(&m.q_vectors),
            lambda: m.lambda,
            nl: m.l_matrix.get_dim(),
            l_matrix: mat(&m.l_matrix),
            decomp: DecompOut {
                determinant: m.decompoisiton_result.determinant.clone(),
                inverse: mat(&m.decompoisiton_result.inverse),
                q_transposed: mat(&m.decompoisiton_result.q_transposed),
                q_transposed_inverse: mat(&m.decompoisiton_result.q_transposed_inverse),
            },
            u_vectors: vecs(&m.u_vectors),
            shift: vecs(&m.shift),
        }),
    }
}

pub type EdgeData<T> = Vec<(Option<T>, Vec<T>)>;

fn edge_data_d<T: MomTropFloat, const D: usize>(ed: &EdgeData<T>) -> Vec<(Option<T>, Vector<T, D>)> {
    ed.iter()
        .map(|(m, p)| (m.clone(), Vector::from_vec(p.clone())))
        .collect()
}

#[derive(Clone, Copy, Debug, PartialEq)]
pub struct Settings {
    pub stability: Option<f64>,
    pub debug: bool,
    pub metadata: bool,
}
impl Settings {
    pub const DEFAULT: Settings = Settings {
        stability: None,
        debug: false,
        metadata: false,
    };
    pub const META: Settings = Settings {
        stability: None,
        debug: false,
        metadata: true,
    };
    pub const FULL: Settings = Settings {
        stability: None,
        debug: true,
        metadata: true,
    };
    pub fn real(&self) -> TropicalSamplingSettings {
        TropicalSamplingSettings {
            matrix_stability_test: self.stability,
            print_debug_info: self.debug,
            return_metadata: self.metadata,
        }
    }
    pub fn json(&self) -> Value {
        json!({"stability": self.stability.map(|s| format!("{s:e}")), "debug": self.debug, "metadata": self.metadata})
    }
}

impl Sampler {
    /// generate_sample_from_x_space_point with any scalar type and logger
    pub fn sample_with<T: MomTropFloat, L: Logger>(
        &self,
        x: &[T],
        ed: &EdgeData<T>,
        st: &Settings,
        logger: &L,
    ) -> Outcome<T> {
        let settings = st.real();
        let r = catch_unwind(AssertUnwindSafe(|| {
            with_sampler!(self, s => s
                .generate_sample_from_x_space_point(x, edge_data_d(ed), &settings, logger)
                .map(convert)
                .map_err(|e| format!("{e:?}")))
        }));
        match r {
            Ok(Ok(s)) => Outcome::Ok(s),
            Ok(Err(e)) => Outcome::Err(simplify_err(&e)),
            Err(p) => Outcome::Panic(panic_message(p)),
        }
    }

    pub fn sample(&self, x: &[f64], ed: &EdgeData<f64>, st: &Settings) -> Outcome<f64> {
        self.sample_with(x, ed, st, &NullLogger)
    }

    /// sample with debug info on and the log captured
    pub fn sample_logged(&self, x: &[f64], ed: &EdgeData<f64>, st: &Settings) -> (Outcome<f64>, LogRec) {
        let lg = CaptureLogger::default();
        let o = self.sample_with(x, ed, st, &lg);
        (o, lg.into_rec())
    }

    pub fn sample_rng<T: MomTropFloat, R: rand::Rng, L: Logger>(
        &self,
        ed: &EdgeData<T>,
        st: &Settings,
        rng: &mut R,
        logger: &L,
    ) -> Outcome<T> {
        let settings = st.real();
        let r = catch_unwind(AssertUnwindSafe(|| {
            with_sampler!(self, s => s
                .generate_sample_from_rng(edge_data_d(ed), &settings, rng, logger)
                .map(convert)
                .map_err(|e| format!("{e:?}")))
        }));
        match r {
            Ok(Ok(s)) => Outcome::Ok(s),
            Ok(Err(e)) => Outcome::Err(simplify_err(&e)),
            Err(p) => Outcome::Panic(panic_message(p)),
        }
    }
}

fn simplify_err(e: &str) -> String {
    if e.contains("ZeroDet") {
        "ZeroDet".into()
    } else if e.contains("Unstable") {
        "Unstable".into()
    } else if e.contains("GammaError") {
        "GammaError".into()
    } else {
        e.to_string()
    }
}

pub fn graph_json(g: &OGraph) -> Value {
    json!({
        "edges": g.edges.iter().map(|&(a,b)| json!([a,b])).collect::<Vec<_>>(),
        "massive": g.massive,
        "weights": jf_vec(&g.weights),
        "externals": g.externals,
        "dim": g.dim,
    })
}

pub fn graph_from_json(v: &Value) -> OGraph {
    OGraph {
        edges: v["edges"]
            .as_array()
            .unwrap()
            .iter()
            .map(|p| (p[0].as_u64().unwrap() as u8, p[1].as_u64().unwrap() as u8))
            .collect(),
        massive: v["massive"].as_array().unwrap().iter().map(|b| b.as_bool().unwrap()).collect(),
        weights: unjf_vec(&v["weights"]),
        externals: v["externals"].as_array().unwrap().iter().map(|b| b.as_u64().unwrap() as u8).collect(),
        dim: v["dim"].as_u64().unwrap() as usize,
    }
}

/// flatten every f64 of a sample into bit patterns (for bit-exact differential oracles)
pub fn sample_bits(s: &SampleOut<f64>) -> Vec<u64> {
    let mut v = vec![];
    let mut push = |x: f64| v.push(x.to_bits());
    for k in &s.loop_momenta {
        k.iter().for_each(|x| push(*x));
    }
    push(s.u_trop);
    push(s.v_trop);
    push(s.u);
    push(s.v);
    push(s.jacobian);
    if let Some(m) = &s.meta {
        m.q_vectors.iter().flatten().for_each(|x| push(*x));
        push(m.lambda);
        m.l_matrix.iter().for_each(|x| push(*x));
        push(m.decomp.determinant);
        m.decomp.inverse.iter().for_each(|x| push(*x));
        m.decomp.q_transposed.iter().for_each(|x| push(*x));
        m.decomp.q_transposed_inverse.iter().for_each(|x| push(*x));
        m.u_vectors.iter().flatten().for_each(|x| push(*x));
        m.shift.iter().flatten().for_each(|x| push(*x));
    }
    v
}

/// the part of a sample that does not depend on return_metadata
pub fn core_bits(s: &SampleOut<f64>) -> Vec<u64> {
    let mut v = vec![];
    for k in &s.loop_momenta {
        k.iter().for_each(|x| v.push(x.to_bits()));
    }
    for x in [s.u_trop, s.v_trop, s.u, s.v, s.jacobian] {
        v.push(x.to_bits());
    }
    v
}

pub fn outcome_bits(o: &Outcome<f64>) -> Result<Vec<u64>, String> {
    match o {
        Outcome::Ok(s) => Ok(sample_bits(s)),
        Outcome::Err(e) => Err(format!("Err({e})")),
        Outcome::Panic(p) => Err(format!("Panic({p})")),
    }
}
