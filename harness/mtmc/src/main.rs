//! mtmc – bounded exhaustive exploration of momtrop against the exact reference model.
//! usage: mtmc <Cxx> --tier quick|thorough [--replay <file>]
#![allow(dead_code)]
mod c01;
mod c06;
mod c14;
mod common;
mod history;
mod kernel;
mod obs;
mod sampler;
mod scalar;
mod sched;
mod scope;
mod seqfmt;
mod sprops;
mod table;

use common::*;

fn main() {
    let args: Vec<String> = std::env::args().collect();
    if args.len() < 2 {
        eprintln!("usage: mtmc <Cxx> --tier quick|thorough [--replay <file>]");
        std::process::exit(2);
    }
    let prop = args[1].clone();
    let mut tier = match std::env::var("VERIF_TIER").ok().as_deref() {
        Some("thorough") => Tier::Thorough,
        _ => Tier::Quick,
    };
    let mut replay: Option<String> = None;
    let mut i = 2;
    while i < args.len() {
        match args[i].as_str() {
            "--tier" => {
                tier = if args[i + 1] == "thorough" { Tier::Thorough } else { Tier::Quick };
                i += 1;
            }
            "--replay" => {
                replay = Some(args[i + 1].clone());
                i += 1;
            }
            _ => {}
        }
        i += 1;
    }
    let seed = std::env::var("VERIF_SEED").ok().and_then(|s| s.parse().ok()).unwrap_or(0);
    let ctx = Ctx { prop: prop.clone(), tier, seed };
    silence_stdout();
    install_silent_panic_hook();
    set_time_cap(tier.pick(900.0, 1500.0));
    if args.len() >= 3 && args[2] == "--child-digest" {
        out_line(&format!("{}", history::digest_of_reference()));
        std::process::exit(0);
    }
    if args.len() >= 3 && args[2] == "--probe-stability" {
        kernel::probe_stability();
        std::process::exit(0);
    }
    if args.len() >= 4 && args[2] == "--probe-gamma" {
        // diagnostic: scan p = (i+1/2)/n for one shape and report Err / non-positive results by quantile domain
        let a: f64 = args[3].parse().unwrap();
        let n = 2_000_000u64;
        let (mut err_in, mut err_out, mut worst) = (0u64, 0u64, 0.0f64);
        let (floor, _) = oracle::special::inc_gamma(a, 1e-13);
        for i in 0..n {
            let p = (i as f64 + 0.5) / n as f64;
            match kernel::call_gamma(a, p).0 {
                kernel::GammaObs::Ok(l) => {
                    let (pp, qq) = oracle::special::inc_gamma(a, l);
                    let e = if p <= 0.5 { (pp - p).abs() } else { (qq - (1.0 - p)).abs() };
                    if p >= floor && e > worst {
                        worst = e;
                    }
                }
                _ => {
                    if p >= floor {
                        err_in += 1;
                        if err_in < 5 {
                            eprintln!("Err in domain at p = {p:e}");
                        }
                    } else {
                        err_out += 1;
                    }
                }
            }
        }
        eprintln!("a = {a:e}: floor p = {floor:e}; Err/panic in domain {err_in}, outside {err_out}; worst accuracy {worst:e}");
        std::process::exit(0);
    }
    if args.len() >= 3 && args[2] == "--history-worker" {
        let tier_cap = 1500.0;
        set_time_cap(tier_cap);
        std::process::exit(history::history_worker_main(&args[3..]));
    }
    if args.len() >= 3 && args[2] == "--sched-worker" {
        std::process::exit(sched::worker_main(&args[3..]));
    }
    let code = std::panic::catch_unwind(|| {
        if let Some(path) = &replay {
            let txt = std::fs::read_to_string(path).expect("replay file");
            let v: serde_json::Value = serde_json::from_str(&txt).expect("replay json");
            let case = &v["case"];
            match case["engine"].as_str().unwrap_or("") {
                "table" => table::replay(&ctx, case),
                "sampler" if prop == "C14" || prop == "C19" => c14::replay_point(&ctx, case),
                "sampler" if prop == "C01" => c01::replay(&ctx, case),
                "sampler" => sprops::replay_point(&ctx, case),
                "c06" => c06::replay(&ctx, case),
                "history" => history::replay_history(&ctx, case),
                "sched" => sched::replay(&ctx, case),
                "c18" => history::replay_c18(case),
                "nolog" => {
                    eprintln!("replay: re-run `./check C17 quick`; the corpus entry is in the replay file (entry, result index)");
                    2
                }
                "kernel" => match case["kind"].as_str().unwrap_or("") {
                    "gamma" | "gamma-pair" => kernel::replay_gamma(case),
                    "matrix" => kernel::replay_matrix(&ctx, case),
                    "dd-matrix" => c14::replay_dd(case),
                    _ => kernel::replay_vector(case),
                },
                other => {
                    eprintln!("unknown replay engine {other}");
                    2
                }
            }
        } else {
            match prop.as_str() {
                "C03" | "C04" | "C05" => table::run(&ctx),
                "C06" => c06::run(&ctx),
                "C01" => c01::run(&ctx),
                "C02" => sprops::run_c02(&ctx),
                "C14" | "C19" => c14::run(&ctx),
                "C17" => history::run_c17(&ctx),
                "C18" => history::run_c18(&ctx),
                "C12" => kernel::run_c12(&ctx),
                "C15" => kernel::run_c15(&ctx),
                "C16" => kernel::run_c16(&ctx),
                "C20" => kernel::run_c20(&ctx),
                "C07" | "C08" | "C09" | "C10" | "C11" | "C13" => sprops::run_simple(&ctx),
                _ => {
                    eprintln!("no engine for {prop}");
                    2
                }
            }
        }
    });
    match code {
        Ok(c) => std::process::exit(c),
        Err(e) => {
            eprintln!("[{}] ENGINE FAILURE: {}", prop, panic_message(e));
            std::process::exit(2);
        }
    }
}
