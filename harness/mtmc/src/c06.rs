//! C06: edge selection at every reachable subgraph of every accepted configuration, boundary-adjacent answers.
use crate::common::*;
use crate::obs::*;
use crate::scope::*;
use crate::scalar::{DD, DD_LENIENT};
use crate::table::{exact_omegas, precompute, Class};
use oracle::graph::{cumulative_probs, OGraph};
use oracle::num::*;
use serde_json::{json, Value};

fn next_up(x: f64) -> f64 {
    if x == 0.0 {
        return f64::from_bits(1);
    }
    f64::from_bits(if x > 0.0 { x.to_bits() + 1 } else { x.to_bits() - 1 })
}
fn next_down(x: f64) -> f64 {
    -next_up(-x)
}

pub struct Driven {
    pub sampler: Sampler,
    pub j: Vec<Q>,
    pub omega: Vec<Q>,
    pub dim_x: usize,
    pub ed: EdgeData<f64>,
}

pub fn drive_setup(g: &OGraph) -> Option<Driven> {
    let mut sampler = match build(g, &dummy_sig(g)) {
        BuildOutcome::Ok(s) => s,
        _ => return None,
    };
    // construction path (a function of the graph, so that a replay takes the same one): every third sampler is used
    // after a CBOR round trip - a restored sampler selects edges like a built one
    if fnv(&graph_json(g).to_string()) % 3 == 1 {
        if let Ok(s2) = Sampler::from_cbor(g.dim, &sampler.to_cbor()) {
            sampler = s2;
        }
    }
    let m = sampler.observe().ok()?;
    if !m.table.table.iter().all(|e| e.j_function.is_finite() && e.generalized_dod.is_finite()) {
        return None;
    }
    let j: Vec<Q> = m.table.table.iter().map(|e| qf(e.j_function)).collect();
    let mut omega: Vec<Q> = m.table.table.iter().map(|e| qf(e.generalized_dod)).collect();
    omega[0] = qi(1);
    let dim_x = sampler.get_dimension().ok()?;
    let ed: EdgeData<f64> = (0..g.ne()).map(|_| (None, vec![0.0; g.dim])).collect();
    Some(Driven {
        sampler,
        j,
        omega,
        dim_x,
        ed,
    })
}

/// u alphabet at SELECT(g)
pub fn u_alphabet(ne: usize, g: usize, j: &[Q], omega: &[Q]) -> Vec<f64> {
    let cum = cumulative_probs(ne, g, j, omega);
    let mut v: Vec<f64> = vec![0.0, f64::from_bits(1), 1.0 - f64::EPSILON, 1.0 - f64::EPSILON / 2.0];
    let delta = qf(2f64.powi(-40));
    let mut prev = qi(0);
    for (_, c) in &cum {
        let mid = q_to_f64(&((&prev + c) / qi(2)));
        let lo = q_to_f64(&(&prev + &delta));
        let hi = q_to_f64(&(c - &delta));
        let near = q_to_f64(c);
        v.extend([mid, lo, hi, near, next_up(near), next_down(near), next_up(next_up(near)), next_down(next_down(near))]);
        prev = c.clone();
    }
    v.retain(|u| (0.0..1.0).contains(u));
    v.sort_by(|a, b| a.partial_cmp(b).unwrap());
    v.dedup();
    v
}

fn midpoint(ne: usize, g: usize, e: usize, j: &[Q], omega: &[Q]) -> f64 {
    let cum = cumulative_probs(ne, g, j, omega);
    let mut prev = qi(0);
    for (k, c) in cum {
        if k == e {
            let m = q_to_f64(&((&prev + &c) / qi(2)));
            return m.clamp(0.0, 1.0 - f64::EPSILON);
        }
        prev = c;
    }
    0.5
}

/// x-space point that walks `path` (edges removed in this order) with midpoint answers, then gives `u` at the reached subgraph
fn point_for(ne: usize, full: usize, path: &[usize], u: f64, d: &Driven) -> (Vec<f64>, usize) {
    let (x, g, _) = point_for_checked(ne, full, path, u, d);
    (x, g)
}

/// also reports whether every interval on the path can be hit by an f64 answer with the G5 margin on both sides
/// (with a weight hierarchy of 2^60 some intervals are narrower than an ulp: such subgraphs cannot be steered to)
fn point_for_checked(ne: usize, full: usize, path: &[usize], u: f64, d: &Driven) -> (Vec<f64>, usize, bool) {
    let mut x = vec![0.5; d.dim_x];
    let mut g = full;
    let mut pos = 0;
    let mut resolvable = true;
    for &e in path {
        if g.count_ones() >= 2 {
            let m = midpoint(ne, g, e, &d.j, &d.omega);
            let cum = cumulative_probs(ne, g, &d.j, &d.omega);
            let mut prev = qi(0);
            for (k, c) in &cum {
                if *k == e {
                    let mq = qf(m);
                    let margin = 1e-13 * g.count_ones() as f64;
                    if !(q_to_f64(&(&mq - &prev)) > margin && q_to_f64(&(c - &mq)) > margin) {
                        resolvable = false;
                    }
                }
                prev = c.clone();
            }
            x[pos] = m;
            pos += 2; // u, xi
        }
        g ^= 1 << e;
    }
    if g.count_ones() >= 2 {
        x[pos] = u;
    }
    return (x, g, resolvable);
    #[allow(unreachable_code)]
    {
        (x, g, resolvable)
    }
}

/// removal order read from the logged unrescaled parameters (strictly decreasing); None if ties / zeros
fn order_from_log(x: &[f64]) -> Option<Vec<usize>> {
    let mut idx: Vec<usize> = (0..x.len()).collect();
    if !x.iter().all(|v| v.is_finite() && *v > 0.0) {
        return None;
    }
    idx.sort_by(|&a, &b| x[b].partial_cmp(&x[a]).unwrap());
    for w in idx.windows(2) {
        if x[w[0]] == x[w[1]] {
            return None;
        }
    }
    Some(idx)
}

fn c06_case(g: &OGraph, path: &[usize], target: usize, u: f64) -> Value {
    json!({"engine": "c06", "graph": graph_json(g), "path": path, "target": target, "u": jf(u)})
}

pub fn gkey(g: &OGraph) -> String {
    format!("{:016x}", fnv(&graph_json(g).to_string()))
}

/// judge one (g, path → target, u); `cum` = exact cumulative sums at target, `xbase` = point walking the path
pub fn check_selection(
    g: &OGraph,
    d: &Driven,
    path: &[usize],
    target: usize,
    u: f64,
    cum: &[(usize, Q)],
    cum_f: &[f64],
    xbase: &[f64],
    upos: usize,
    acc: &mut Acc,
    witnessed: &mut Vec<(usize, usize)>,
) {
    let mut x = xbase.to_vec();
    if target.count_ones() >= 2 {
        x[upos] = u;
    }
    let st = Settings { stability: None, debug: true, metadata: false };
    let (out, log) = d.sampler.sample_logged(&x, &d.ed, &st);
    acc.inc("executions");
    let xs = match &log.x_unrescaled {
        Some(x) => x,
        None => {
            if let Outcome::Panic(p) = &out {
                // the parameters were never logged: the panic happened during edge selection
                let site = if p.contains("could not sample edge") { "sample_edge-fallthrough" } else { "selection-other" };
                acc.violate(
                    format!("C06/panic:{site}/{}/{target}/{}", gkey(g), bits(u)),
                    "total on [0,1): no panic",
                    format!("sample panicked at subgraph {target:#b} with u = {u:e} (bits {}): {}", bits(u), p.chars().take(160).collect::<String>()),
                    c06_case(g, path, target, u),
                );
            } else {
                acc.inc("log_missing");
            }
            return;
        }
    };
    let order = match order_from_log(xs) {
        Some(o) => o,
        None => {
            acc.inc("order_unreadable");
            return;
        }
    };
    // path prefix must have been followed (midpoint answers)
    for (k, &e) in path.iter().enumerate() {
        if order[k] != e {
            acc.violate(
                format!("C06/midpoint-path/{}/{target}/{k}", gkey(g)),
                "first edge whose running sum reaches u",
                format!("midpoint answer for edge {e} at step {k} selected edge {} instead (order {:?})", order[k], order),
                c06_case(g, path, target, u),
            );
            return;
        }
    }
    if target.count_ones() < 2 {
        return;
    }
    let selected = order[path.len()];
    if target >> selected & 1 == 0 {
        acc.violate(
            format!("C06/not-in-g/{}/{target}/{}", gkey(g), bits(u)),
            "an edge of g is selected",
            format!("edge {selected} selected at subgraph {target:#b}"),
            c06_case(g, path, target, u),
        );
        return;
    }
    witnessed.push((target, selected));
    // expected: first edge with exact cumulative sum >= u. f64 pre-check, exact when close to a boundary.
    let n = cum.len();
    let fmargin = cum_f[..n - 1].iter().map(|c| (c - u).abs()).fold(f64::INFINITY, f64::min);
    let (expected, margin) = if fmargin > 1e-9 {
        let mut e = cum[n - 1].0;
        for k in 0..n {
            if cum_f[k] >= u {
                e = cum[k].0;
                break;
            }
        }
        (e, fmargin)
    } else {
        let uq = qf(u);
        let mut e = cum[n - 1].0;
        for (k, c) in cum.iter() {
            if *c >= uq {
                e = *k;
                break;
            }
        }
        let m = cum[..n - 1].iter().map(|(_, c)| q_to_f64(&(c - &uq)).abs()).fold(f64::INFINITY, f64::min);
        (e, m)
    };
    let strict = margin >= 1e-13 * target.count_ones() as f64;
    acc.inc("selections_judged");
    if strict {
        acc.inc("selections_unambiguous");
        if selected != expected {
            acc.violate(
                format!("C06/wrong-edge/{}/{target}/{}", gkey(g), bits(u)),
                "first edge whose running sum reaches u",
                format!("at subgraph {target:#b}, u = {u:e}: selected edge {selected}, exact cumulative sums select edge {expected}"),
                c06_case(g, path, target, u),
            );
        }
    } else {
        // within rounding distance of a boundary either neighbour is acceptable
        let edges: Vec<usize> = cum.iter().map(|c| c.0).collect();
        let pe = edges.iter().position(|&e| e == expected).unwrap();
        let ps = edges.iter().position(|&e| e == selected).unwrap();
        if pe.abs_diff(ps) > 1 {
            acc.violate(
                format!("C06/wrong-edge-near-boundary/{}/{target}/{}", gkey(g), bits(u)),
                "first edge whose running sum reaches u",
                format!("at subgraph {target:#b}, u = {u:e} near a boundary: selected edge {selected}, expected {expected} or a neighbour"),
                c06_case(g, path, target, u),
            );
        }
    }
}

/// wider-than-f64 answers: u = c_k ± 2^-75 as a double-double; the selection must follow the exact comparison
/// (an implementation that narrows u to f64 before scanning cannot tell the two apart)
fn check_selection_dd(g: &OGraph, d: &Driven, path: &[usize], target: usize, cum: &[(usize, Q)], xbase: &[f64], upos: usize, acc: &mut Acc) {
    let n = cum.len();
    let st = Settings { stability: None, debug: true, metadata: false };
    let ed: EdgeData<DD> = (0..g.ne()).map(|_| (None, vec![DD::from(0.0); g.dim])).collect();
    let delta = qf(2f64.powi(-75));
    let mut cases: Vec<(DD, Option<usize>, String)> = vec![];
    for k in 0..n - 1 {
        for sign in [-1i64, 1] {
            let c = &cum[k].1;
            let hi = q_to_f64(c);
            if !(hi > 0.0 && hi < 1.0) {
                continue;
            }
            let rem = c - qf(hi) + qi(sign) * &delta;
            let lo = q_to_f64(&rem);
            let s = hi + lo;
            let u = DD { hi: s, lo: lo - (s - hi) };
            let expected = if sign < 0 { cum[k].0 } else { cum[k + 1].0 };
            cases.push((u, Some(expected), format!("c_{k} {} 2^-75", if sign < 0 { "-" } else { "+" })));
        }
    }
    // just below one: must select (the last) edge, never panic
    cases.push((DD { hi: 1.0, lo: -(2f64.powi(-70)) }, Some(cum[n - 1].0), "1 - 2^-70".to_string()));
    for (u, expected, label) in cases {
        let mut x: Vec<DD> = xbase.iter().map(|v| DD::from(*v)).collect();
        x[upos] = u;
        DD_LENIENT.with(|l| *l.borrow_mut() = true);
        let lg = CaptureLogger::default();
        let out = d.sampler.sample_with(&x, &ed, &st, &lg);
        DD_LENIENT.with(|l| *l.borrow_mut() = false);
        let log = lg.into_rec();
        acc.inc("dd_executions");
        let case = json!({"engine": "c06", "graph": graph_json(g), "path": path, "target": target, "u": jf(u.hi), "u_lo": jf(u.lo), "dd": true});
        let xs = match &log.x_unrescaled {
            Some(x) => x,
            None => {
                if let Outcome::Panic(p) = &out {
                    acc.violate(
                        format!("C06/panic:wide-scalar/{}/{target}/{}", gkey(g), label),
                        "total on [0,1): no panic",
                        format!("with a double-double scalar, u = {label} at subgraph {target:#b}: {}", p.chars().take(140).collect::<String>()),
                        case,
                    );
                }
                continue;
            }
        };
        let order = match order_from_log(xs) {
            Some(o) => o,
            None => continue,
        };
        if order[..path.len()] != path[..] {
            continue;
        }
        let selected = order[path.len()];
        acc.inc("dd_selections_judged");
        if Some(selected) != expected {
            acc.violate(
                format!("C06/wrong-edge:wide-scalar/{}/{target}/{}", gkey(g), label),
                "first edge whose running sum reaches u (any scalar type)",
                format!("with a double-double scalar, u = {label} at subgraph {target:#b}: selected edge {selected}, exact comparison selects {expected:?}"),
                case,
            );
        }
    }
}

pub fn check_graph(g: &OGraph, acc: &mut Acc, both_paths: bool) {
    let d = match drive_setup(g) {
        Some(d) => d,
        None => {
            acc.inc("setup_failed");
            return;
        }
    };
    acc.inc("configurations");
    let ne = g.ne();
    let full = g.full();
    let mut witnessed: Vec<(usize, usize)> = vec![];
    for target in 1..=full {
        if target.count_ones() < 2 {
            continue;
        }
        acc.inc("states");
        let removed: Vec<usize> = (0..ne).filter(|e| target >> e & 1 == 0).collect();
        let mut paths = vec![removed.clone()];
        if both_paths && removed.len() >= 2 {
            paths.push(removed.iter().rev().cloned().collect());
        }
        let alpha = u_alphabet(ne, target, &d.j, &d.omega);
        let cum = cumulative_probs(ne, target, &d.j, &d.omega);
        let cum_f: Vec<f64> = cum.iter().map(|c| q_to_f64(&c.1)).collect();
        for (pi, path) in paths.iter().enumerate() {
            let (xbase, _, resolvable) = point_for_checked(ne, full, path, 0.5, &d);
            if !resolvable {
                acc.inc("targets_not_steerable_with_f64_answers");
                continue;
            }
            let upos = 2 * path.len();
            for &u in &alpha {
                let mut w = vec![];
                check_selection(g, &d, path, target, u, &cum, &cum_f, &xbase, upos, acc, &mut w);
                if pi == 0 {
                    witnessed.extend(w);
                }
            }
            if pi == 0 {
                check_selection_dd(g, &d, path, target, &cum, &xbase, upos, acc);
            }
        }
        acc.add("lattice_transitions", target.count_ones() as u64);
    }
    witnessed.sort();
    witnessed.dedup();
    acc.add("transitions_witnessed", witnessed.len() as u64);
    // a sample on E edges consumes exactly E-1 selection answers: exact-length point must not panic on index
    let (x, _) = point_for(ne, full, &[], 0.5, &d);
    let out = d.sampler.sample(&x, &d.ed, &Settings::DEFAULT);
    if let Outcome::Panic(p) = out {
        if p.contains("index out of bounds") {
            acc.violate(
                format!("C06/over-consumption/{}", gkey(g)),
                "single remaining edge consumes no number",
                format!("sampling a point of exactly get_dimension() coordinates ran past the end: {p}"),
                c06_case(g, &[], full, 0.5),
            );
        }
    }
}

pub fn run(ctx: &Ctx) -> i32 {
    let tier = ctx.tier;
    let labels = [0u8, 1, 2];
    let ext = external_alphabet(&labels, 7);
    let mut shapes: Vec<(Vec<(u8, u8)>, Vec<Vec<u8>>)> = vec![];
    for ne in 2..=3 {
        for s in ordered_pair_shapes(&labels, ne) {
            shapes.push((s, ext.clone()));
        }
    }
    let labels4 = [0u8, 1, 2, 3];
    let ext4 = external_alphabet(&labels4, 9);
    for (i, s) in unordered_pair_shapes(&labels4, 4).into_iter().enumerate() {
        if i % tier.pick(431, 13) == 0 {
            shapes.push((s, ext4.clone()));
        }
    }
    if tier == Tier::Thorough {
        for (i, s) in unordered_pair_shapes(&labels4, 5).into_iter().enumerate() {
            if i % 1499 == 0 {
                shapes.push((s, vec![vec![], vec![0, 1], vec![0, 3], vec![1, 2, 3]]));
            }
        }
        shapes.push((mercedes(), vec![vec![0, 1], vec![0, 1, 2, 3]]));
        shapes.push((ladder2(), vec![vec![0, 3], vec![0, 2, 3, 5]]));
        shapes.push((banana(5), vec![vec![0, 1]]));
    }
    let wq: Vec<f64> = vec![1.0, 2.0 / 3.0];
    // longest first (dynamic hand-out of work items); stable, so the i-dependent choices below stay deterministic
    shapes.sort_by_key(|s| std::cmp::Reverse(s.0.len()));
    let mut acc = par_for(shapes.len(), |i, acc| {
        let (shape, exts) = &shapes[i];
        let ne = shape.len();
        let alpha: Vec<f64> = if ne >= 4 { vec![1.0, 2.0 / 3.0] } else if tier == Tier::Quick { wq.clone() } else { W6.to_vec() };
        let mut was = weight_assignments(&alpha, ne);
        if ne >= 5 {
            was.truncate(6);
        }
        // the witness of DESIGN §6 (F1) uses these weights; plus numerically generic (non-dyadic, unequal) assignments
        if ne == 3 {
            was.push(vec![2.0, 1.25, 2.0 / 3.0]);
            was.push(vec![0.61, 0.7, 0.64]);
            was.push(vec![1.2, 0.66, 0.9]);
        }
        if ne == 3 {
            for k in 0..3 {
                was.push((0..3).map(|e| if e == k { 2f64.powi(-60) } else { 1.0 }).collect());
            }
        }
        if ne == 2 {
            was.push(vec![2f64.powi(-60), 1.0]);
            was.push(vec![0.61, 0.7]);
            was.push(vec![0.66, 1.2]);
        }
        if ne == 4 {
            was.push(vec![0.61, 0.7, 0.64, 0.8]);
        }
        for massive in mass_patterns(ne) {
            if ne >= 5 && !(massive.iter().filter(|&&m| m).count() <= 1 || massive.iter().all(|&m| m)) {
                continue;
            }
            for ext in exts {
                let g0 = mk(shape, &massive, &vec![1.0; ne], ext, 4);
                let pre = precompute(&g0);
                for d in tier.pick(if i % 3 == 0 { vec![3usize, 4] } else if i % 3 == 1 { vec![3usize] } else { vec![4usize] }, vec![1, 2, 3, 4, 5, 6]) {
                    let mut wl = was.clone();
                    wl.push(vec![d as f64; ne]);
                    for w in &wl {
                        if time_up() {
                            acc.inc("items_skipped_by_time_cap");
                            return;
                        }
                        let g = mk(shape, &massive, w, ext, d);
                        // G1: accepted with margin, decided by the exact oracle
                        // accepted with margin (G1) – or, for an extreme but legal weight hierarchy, every exact proper omega
                        // strictly positive: the edge distribution is well defined there too and selection must stay total
                        match exact_omegas(&g, &pre) {
                            Some(ex) if ex.class == Class::MustOk && ex.dod as f64 >= 1e-9 * (1u64 << 60) as f64 => {}
                            Some(ex) if w.iter().any(|x| *x < 1e-9) && (1..g.full()).all(|m| ex.omega[m] > 0) && ex.dod > 0 => {
                                acc.inc("configurations_with_extreme_weight_hierarchy");
                            }
                            _ => continue,
                        }
                        check_graph(&g, acc, tier == Tier::Thorough);
                        if acc.samples.len() < 3 && i % 31 == 7 {
                            acc.sample(json!({"graph": graph_json(&g), "note": "every subset |g|>=2 driven to along the index-ordered path; u alphabet of interval ends, f64 neighbours of boundaries, 0, 2^-1074, 1-2^-52, 1-2^-53"}));
                        }
                    }
                }
            }
        }
    });
    // SIZE LADDER: one-loop polygons and bananas with 6..10 edges (12 in the thorough tier), numerically generic weights
    // (the f64 probabilities do not add up to exactly one), the complete subset lattice of each
    let mut big: Vec<OGraph> = vec![];
    for ne in tier.pick(vec![6usize, 7, 8, 9, 10], vec![6, 7, 8, 9, 10, 11, 12]) {
        let variants = if ne <= 8 { tier.pick(6, 24) } else { 2 };
        for v in 0..variants {
            let w: Vec<f64> = (0..ne).map(|e| 0.6 + ((e * 7 + v * 3 + ne) % 11) as f64 / 17.0).collect();
            let poly: Vec<(u8, u8)> = (0..ne).map(|i| (i as u8, ((i + 1) % ne) as u8)).collect();
            let all_ext: Vec<u8> = (0..ne as u8).collect();
            if v % 2 == 0 {
                big.push(mk(&poly, &vec![false; ne], &w, &all_ext, 3));
            } else {
                let w2: Vec<f64> = w.iter().map(|x| x + 0.55).collect();
                big.push(mk(&poly, &vec![true; ne], &w2, &[], 3));
            }
            if v < 2 && ne <= 9 {
                // banana with ne edges: weights around D/2 so that every sub-banana converges
                let wb: Vec<f64> = w.iter().map(|x| x + 1.0).collect();
                big.push(mk(&banana(ne - 1), &vec![true; ne], &wb, &[0, 1], 3));
            }
        }
    }
    let big_acc = par_for(big.len(), |i, acc| {
        let g = &big[i];
        if time_up() {
            acc.inc("items_skipped_by_time_cap");
            return;
        }
        let pre = precompute(g);
        match exact_omegas(g, &pre) {
            Some(ex) if ex.class == Class::MustOk && ex.dod as f64 >= 1e-9 * (1u64 << 60) as f64 => {}
            _ => {
                acc.inc("size_ladder_not_accepted");
                acc.hist("size_ladder_not_accepted", &format!("E{}D{}m{}x{}", g.ne(), g.dim, g.massive.iter().filter(|m| **m).count(), g.externals.len()));
                return;
            }
        }
        acc.inc("size_ladder_configurations");
        acc.hist("size_ladder_edges", &format!("E{}", g.ne()));
        check_graph(g, acc, false);
    });
    acc.merge(big_acc);
    acc.violations.sort_by(|a, b| (a.key.as_str(), a.what.as_str()).cmp(&(b.key.as_str(), b.what.as_str())));
    if acc.samples.is_empty() {
        acc.sample(json!({"note": "no accepted configuration"}));
    }
    let mut extra = serde_json::Map::new();
    extra.insert(
        "witnessed_fraction_of_lattice_transitions".into(),
        json!(acc.get("transitions_witnessed") as f64 / acc.get("lattice_transitions").max(1) as f64),
    );
    let fin = Finish {
        level: "model_checking",
        rule: "every oracle-accepted configuration of the scope x every subset g with |g|>=2 (state) is reached on the real sampler along the index-ordered path (thorough: also the reverse path) with all xi = 1/2, and every u of the boundary alphabet is given at g; the removal order is read from the strictly decreasing logged parameters; transitions = (g,e) pairs witnessed as selected; additionally every interior boundary c_k is approached from both sides by a double-double answer c_k ± 2^-75 (and 1 - 2^-70), which f64 cannot represent; non-trivial = selections judged against the exact cumulative sums of the implementation's own table".into(),
        states: acc.get("states"),
        transitions: acc.get("transitions_witnessed"),
        traces: acc.get("executions"),
        evaluations: acc.get("executions"),
        distinct_nontrivial: acc.get("selections_judged") + acc.get("dd_selections_judged"),
        exhaustive: true,
        bounds: json!({"G-small": "ordered pairs over {0,1,2}, E=2..3", "G-mid": "E=4 strided", "size-ladder": tier.pick("polygons and bananas E=6..10, complete lattice", "polygons and bananas E=6..12, complete lattice"), "D": tier.pick("3,4", "1..6"), "G5 margin": "1e-13*|g|"}),
        assumptions: vec!["removal order observed through the `log` feature (unrescaled parameters strictly decrease when all xi = 1/2)".into()],
        extra,
    };
    finish(ctx, &acc, fin)
}

pub fn replay(_ctx: &Ctx, case: &Value) -> i32 {
    let g = graph_from_json(&case["graph"]);
    let path: Vec<usize> = case["path"].as_array().unwrap().iter().map(|v| v.as_u64().unwrap() as usize).collect();
    let target = case["target"].as_u64().unwrap() as usize;
    let u = unjf(&case["u"]);
    let is_dd = case["dd"].as_bool().unwrap_or(false);
    let d = match drive_setup(&g) {
        Some(d) => d,
        None => {
            eprintln!("replay: graph does not build");
            return 2;
        }
    };
    let mut acc = Acc::new();
    let mut w = vec![];
    eprintln!("C06 replay: graph {} path {:?} target {target:#b} u = {u:e} ({})", graph_json(&g), path, bits(u));
    let cum = cumulative_probs(g.ne(), target, &d.j, &d.omega);
    for (e, c) in &cum {
        eprintln!("   exact cumulative after edge {e}: {:.20e}", q_to_f64(c));
    }
    let cum_f: Vec<f64> = cum.iter().map(|c| q_to_f64(&c.1)).collect();
    let (xbase, _) = point_for(g.ne(), g.full(), &path, 0.5, &d);
    if is_dd {
        check_selection_dd(&g, &d, &path, target, &cum, &xbase, 2 * path.len(), &mut acc);
    } else {
        check_selection(&g, &d, &path, target, u, &cum, &cum_f, &xbase, 2 * path.len(), &mut acc, &mut w);
    }
    eprintln!("  witnessed: {w:?}");
    for v in &acc.violations {
        eprintln!("  reproduced: [{}] {}", v.clause, v.what);
    }
    if acc.violations.is_empty() {
        eprintln!("  no violation reproduced");
        0
    } else {
        1
    }
}
