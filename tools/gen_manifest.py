#!/usr/bin/env python3
"""Generates /verif/MANIFEST.json from the table below (single source of truth for what is claimed)."""
import json, os, sys

ALL = [f"C{i:02d}" for i in range(1, 21)]

# id -> (engine, level, technique, text, note, design_ref)
CHECKS = {
    "C03": ("table", "model_checking",
            "explicit-state enumeration: all configurations in scope x all 2^E lattice states of the real table vs union-find reference model",
            "Every multigraph configuration of the stated scope (labelled, no symmetry reduction) is built with the real build_sampler and every one of its 2^E table entries and every lattice edge is compared with an independent exact reference model; the state space per configuration is covered completely.",
            "Trusted: the reference model (oracle crate, unit-tested against the matrix-tree theorem), serde as observation window, exact fixed-point arithmetic for the weight alphabet. Bounds: E<=3 over 3 labels, E=4 over 4 labels (strided in quick), D=1..6, weight alphabets W3/W6.",
            "DESIGN.md §5/C03"),
    "C04": ("table", "model_checking",
            "explicit-state enumeration of the subset lattice; J recursion re-derived in exact rationals on every transition, E! maximal paths summed",
            "For every accepted configuration in scope every J entry is compared with the exact rational recursion over the implementation's own omegas, every edge-probability row is summed exactly, all E! maximal paths are summed, and the cached normalisation is recomputed with an independent Gamma.",
            "Trusted: BigRational arithmetic, libm tgamma. Tolerance 2^-52*2^14 on J (sums of positive terms), 1e-11 on the normalisation.",
            "DESIGN.md §5/C04"),
    "C05": ("table", "model_checking",
            "exhaustive configuration enumeration with exact omega oracle; all E! hash-set iteration orders enumerated through the verif-hooks seam",
            "Every build attempt in scope is classified by exact omegas (must-reject / must-accept / either within 1e-9) and compared with the real outcome under catch_unwind; each graph is additionally built under every one of the E! hash iteration orders and the serialised tables must be byte-identical.",
            "Trusted: exact fixed-point omegas; the seam reproduces production hashing when no order is installed. E up to 10 only for the no-panic clause; E near 64 is not explorable (2^E table).",
            "DESIGN.md §5/C05"),
}

NOT_BUILT_REASON = "check not built yet in this session (see DESIGN.md §10 for the plan); not claimed until it passes and has been mutation-tested"

def main():
    extra_path = os.path.join(os.path.dirname(__file__), "manifest_extra.json")
    checks = dict(CHECKS)
    if os.path.exists(extra_path):
        for k, v in json.load(open(extra_path)).items():
            checks[k] = tuple(v)
    man = {
        "version": 1,
        "setup_cmd": "./check --build",
        "hooks": {
            "guard": "cargo feature verif-hooks",
            "enable": "the harness depends on momtrop { path = \"/repo\", features = [\"log\", \"verif-hooks\"] }; no RUSTFLAGS",
            "baseline_off_cmd": "cd /repo && cargo test --workspace --no-fail-fast --offline",
            "source_commits": ["5bdd1de"],
            "add_only": True,
        },
        "engines": [
            {"name": "mtmc", "path": "harness/mtmc", "serves_properties": sorted(checks.keys()),
             "kind_free_text": "Rust binary: bounded exhaustive exploration of the real momtrop code (configuration enumeration, subset-lattice walk, deviation-bounded answer sequences, histories, controlled schedules) against the oracle crate"},
            {"name": "oracle", "path": "harness/oracle", "serves_properties": sorted(checks.keys()),
             "kind_free_text": "reference model in exact rational arithmetic; no dependency on momtrop"},
        ],
        "checks": [],
        "not_applicable": [],
        "notes": "Driver: ./check <Cxx> <quick|thorough>. Exit 0 held / 1 VIOLATION / 2 machinery failure. Known findings in known_findings.json.",
    }
    for pid in ALL:
        if pid in checks:
            eng, level, tech, text, note, ref = checks[pid]
            man["checks"].append({
                "property_id": pid,
                "quick_cmd": f"./check {pid} quick",
                "thorough_cmd": f"./check {pid} thorough",
                "evidence_file": f"/verif/evidence/{pid}.json",
                "replay_cmd_template": f"./check {pid} --replay {{path}}",
                "engine": eng,
                "level_claimed": {"category": level, "text": text, "design_ref": ref},
                "level_note": note,
                "technique": tech,
            })
        else:
            man["not_applicable"].append({"property_id": pid, "reason": NOT_BUILT_REASON})
    out = os.path.join(os.path.dirname(__file__), "..", "MANIFEST.json")
    json.dump(man, open(out, "w"), indent=1)
    print("claimed:", sorted(checks.keys()))

if __name__ == "__main__":
    main()
