//! Graph combinatorics on explicit edge subsets (bit masks), from the definitions.
use crate::num::*;
use num_traits::{One, Zero};

#[derive(Clone, Debug, PartialEq)]
pub struct OGraph {
    /// (left, right) vertex labels, arbitrary u8
    pub edges: Vec<(u8, u8)>,
    pub massive: Vec<bool>,
    /// the f64 weights the user passes (exact values are taken from these)
    pub weights: Vec<f64>,
    pub externals: Vec<u8>,
    pub dim: usize,
}

/// union-find over u8 labels
struct Uf {
    parent: [u16; 256],
}
impl Uf {
    fn new() -> Self {
        let mut parent = [0u16; 256];
        for (i, p) in parent.iter_mut().enumerate() {
            *p = i as u16;
        }
        Uf { parent }
    }
    fn find(&mut self, x: u8) -> u8 {
        let mut r = x as usize;
        while self.parent[r] as usize != r {
            r = self.parent[r] as usize;
        }
        let mut c = x as usize;
        while self.parent[c] as usize != r {
            let n = self.parent[c] as usize;
            self.parent[c] = r as u16;
            c = n;
        }
        r as u8
    }
    fn union(&mut self, a: u8, b: u8) -> bool {
        let (ra, rb) = (self.find(a), self.find(b));
        if ra == rb {
            false
        } else {
            self.parent[ra as usize] = rb as u16;
            true
        }
    }
}

impl OGraph {
    pub fn ne(&self) -> usize {
        self.edges.len()
    }
    pub fn full(&self) -> usize {
        (1usize << self.ne()) - 1
    }
    pub fn edges_of(&self, mask: usize) -> impl Iterator<Item = usize> + '_ {
        (0..self.ne()).filter(move |e| mask >> e & 1 == 1)
    }

    /// sorted distinct vertices touched by the subset
    pub fn vertices(&self, mask: usize) -> Vec<u8> {
        let mut seen = [false; 256];
        for e in self.edges_of(mask) {
            seen[self.edges[e].0 as usize] = true;
            seen[self.edges[e].1 as usize] = true;
        }
        (0..256usize).filter(|&v| seen[v]).map(|v| v as u8).collect()
    }

    /// connected components of the subset as lists of vertices (components are those of the
    /// graph (V(g), g): only touched vertices count)
    pub fn components(&self, mask: usize) -> Vec<Vec<u8>> {
        let mut uf = Uf::new();
        for e in self.edges_of(mask) {
            uf.union(self.edges[e].0, self.edges[e].1);
        }
        let vs = self.vertices(mask);
        let mut roots: Vec<u8> = vec![];
        let mut comps: Vec<Vec<u8>> = vec![];
        for v in vs {
            let r = uf.find(v);
            match roots.iter().position(|&x| x == r) {
                Some(i) => comps[i].push(v),
                None => {
                    roots.push(r);
                    comps.push(vec![v]);
                }
            }
        }
        comps
    }

    /// cyclomatic number: edges - touched vertices + connected components
    pub fn loop_number(&self, mask: usize) -> usize {
        let e = mask.count_ones() as usize;
        let v = self.vertices(mask).len();
        let c = self.components(mask).len();
        e + c - v
    }

    /// contains every massive edge and has one connected component touching every external vertex
    pub fn mass_momentum_spanning(&self, mask: usize) -> bool {
        for e in 0..self.ne() {
            if self.massive[e] && mask >> e & 1 == 0 {
                return false;
            }
        }
        self.components(mask)
            .iter()
            .any(|c| self.externals.iter().all(|x| c.contains(x)))
    }

    pub fn weight_q(&self, e: usize) -> Q {
        qf(self.weights[e])
    }

    pub fn weight_sum(&self, mask: usize) -> Q {
        self.edges_of(mask).fold(Q::zero(), |a, e| a + self.weight_q(e))
    }

    /// overall degree of divergence: sum of weights - D/2 * loops
    pub fn dod(&self) -> Q {
        self.weight_sum(self.full())
            - qr(self.dim as i64, 2) * qi(self.loop_number(self.full()) as i64)
    }

    /// generalised degree of divergence (1 for the empty set)
    pub fn omega(&self, mask: usize) -> Q {
        if mask == 0 {
            return Q::one();
        }
        let base = self.weight_sum(mask) - qr(self.dim as i64, 2) * qi(self.loop_number(mask) as i64);
        if self.mass_momentum_spanning(mask) {
            base - self.dod()
        } else {
            base
        }
    }

    pub fn omegas(&self) -> Vec<Q> {
        (0..=self.full()).map(|m| self.omega(m)).collect()
    }

    pub fn is_connected(&self) -> bool {
        self.ne() > 0 && self.components(self.full()).len() == 1
    }

    /// hypercube dimension 2E-1 + DL + (DL mod 2)
    pub fn hypercube_dim(&self) -> usize {
        let dl = self.dim * self.loop_number(self.full());
        2 * self.ne() - 1 + dl + dl % 2
    }

    /// all non-empty proper subsets have omega >= eps and (optionally) overall dod >= eps
    pub fn min_proper_omega(&self) -> Option<Q> {
        let full = self.full();
        let mut m: Option<Q> = None;
        for g in 1..full {
            let w = self.omega(g);
            m = Some(match m {
                None => w,
                Some(x) => q_min(&x, &w),
            });
        }
        m
    }

    /// Spanning trees of the full graph (must be connected): edge masks with |T| = V-1, connected, touching all vertices
    pub fn spanning_trees(&self) -> Vec<usize> {
        let nv = self.vertices(self.full()).len();
        let mut res = vec![];
        if nv == 0 {
            return res;
        }
        for t in 0..=self.full() {
            if t.count_ones() as usize != nv - 1 {
                continue;
            }
            if nv == 1 {
                // single vertex: the empty tree
                res.push(t);
                continue;
            }
            if self.loop_number(t) == 0
                && self.components(t).len() == 1
                && self.vertices(t).len() == nv
            {
                res.push(t);
            }
        }
        res
    }

    /// Spanning 2-forests: (edge mask, vertices of one of the two trees). Isolated vertices count as trees.
    pub fn spanning_two_forests(&self) -> Vec<(usize, Vec<u8>)> {
        let all_v = self.vertices(self.full());
        let nv = all_v.len();
        let mut res = vec![];
        if nv < 2 {
            return res;
        }
        for f in 0..=self.full() {
            if f.count_ones() as usize != nv - 2 {
                continue;
            }
            if self.loop_number(f) != 0 {
                continue;
            }
            // components incl. isolated vertices
            let mut comps = self.components(f);
            for v in &all_v {
                if !comps.iter().any(|c| c.contains(v)) {
                    comps.push(vec![*v]);
                }
            }
            if comps.len() == 2 {
                res.push((f, comps[0].clone()));
            }
        }
        res
    }
}

/// J function by its recursion, from given omegas (index = subset mask). J(∅)=1,
/// J(g) = Σ_{e∈g} J(g\e)/ω(g\e).
pub fn j_table(ne: usize, omega: &[Q]) -> Vec<Q> {
    let n = 1usize << ne;
    let mut j = vec![Q::zero(); n];
    j[0] = Q::one();
    // masks in increasing order: g\e < g always
    for g in 1..n {
        let mut s = Q::zero();
        for e in 0..ne {
            if g >> e & 1 == 1 {
                let h = g ^ (1 << e);
                s += &j[h] / &omega[h];
            }
        }
        j[g] = s;
    }
    j
}

/// Σ over all E! orderings of Π_j 1/ω(g_j), g_j = graph after j removals (j = 1..E; g_E = ∅ with ω = 1)
pub fn j_path_sum(ne: usize, omega: &[Q]) -> Q {
    fn rec(g: usize, ne: usize, omega: &[Q], acc: &Q, total: &mut Q) {
        if g == 0 {
            *total += acc;
            return;
        }
        for e in 0..ne {
            if g >> e & 1 == 1 {
                let h = g ^ (1 << e);
                let a = acc / &omega[h];
                rec(h, ne, omega, &a, total);
            }
        }
    }
    let mut total = Q::zero();
    rec((1usize << ne) - 1, ne, omega, &Q::one(), &mut total);
    total
}

/// exact cumulative selection probabilities at subgraph g: for edges of g in index order,
/// c_k = Σ_{e<=k} J(g\e)/(J(g) ω(g\e))
pub fn cumulative_probs(ne: usize, g: usize, j: &[Q], omega: &[Q]) -> Vec<(usize, Q)> {
    let mut res = vec![];
    let mut c = Q::zero();
    for e in 0..ne {
        if g >> e & 1 == 1 {
            let h = g ^ (1 << e);
            c += &j[h] / (&j[g] * &omega[h]);
            res.push((e, c.clone()));
        }
    }
    res
}

#[cfg(test)]
mod tests {
    use super::*;

    fn tri() -> OGraph {
        OGraph {
            edges: vec![(0, 1), (1, 2), (2, 0)],
            massive: vec![false; 3],
            weights: vec![0.75, 0.75, 0.75],
            externals: vec![0, 1, 2],
            dim: 3,
        }
    }

    #[test]
    fn triangle_basic() {
        let g = tri();
        assert_eq!(g.loop_number(7), 1);
        assert_eq!(g.loop_number(3), 0);
        assert_eq!(g.spanning_trees().len(), 3);
        assert_eq!(g.spanning_two_forests().len(), 3);
        assert!(g.mass_momentum_spanning(7));
        assert!(g.mass_momentum_spanning(3));
        assert!(!g.mass_momentum_spanning(1));
        assert_eq!(g.dod(), qr(3, 4));
        let om = g.omegas();
        let j = j_table(3, &om);
        assert_eq!(j[7], j_path_sum(3, &om));
        let c = cumulative_probs(3, 7, &j, &om);
        assert_eq!(c.last().unwrap().1, qi(1));
    }

    #[test]
    fn disconnected_and_selfloop() {
        let g = OGraph {
            edges: vec![(0, 0), (1, 2), (5, 5), (1, 2)],
            massive: vec![true, false, false, true],
            weights: vec![1.0; 4],
            externals: vec![],
            dim: 4,
        };
        assert_eq!(g.loop_number(0b1111), 3);
        assert_eq!(g.components(0b1111).len(), 3);
        assert_eq!(g.loop_number(0b0101), 2);
        assert_eq!(g.loop_number(0b1010), 1);
        assert!(!g.mass_momentum_spanning(0));
        assert!(g.mass_momentum_spanning(0b1001));
        assert!(!g.mass_momentum_spanning(0b0111));
    }

    /// matrix-tree theorem cross-check of the tree enumeration on all multigraphs with V<=4 labels, E<=5 (sampled shapes: complete enumeration over pair lists)
    #[test]
    fn tree_count_vs_matrix_tree() {
        use crate::linalg::QMat;
        let pairs: Vec<(u8, u8)> = (0..4u8).flat_map(|a| (a..4u8).map(move |b| (a, b))).collect();
        let mut checked = 0;
        for ne in 1..=4usize {
            let mut idx = vec![0usize; ne];
            loop {
                let edges: Vec<(u8, u8)> = idx.iter().map(|&i| pairs[i]).collect();
                let g = OGraph {
                    edges: edges.clone(),
                    massive: vec![false; ne],
                    weights: vec![1.0; ne],
                    externals: vec![],
                    dim: 4,
                };
                if g.is_connected() {
                    let vs = g.vertices(g.full());
                    let n = vs.len();
                    let count = g.spanning_trees().len();
                    let expect = if n == 1 {
                        1
                    } else {
                        let mut lap = QMat::zeros(n - 1);
                        for &(a, b) in &edges {
                            if a == b {
                                continue;
                            }
                            let ia = vs.iter().position(|&v| v == a).unwrap();
                            let ib = vs.iter().position(|&v| v == b).unwrap();
                            if ia < n - 1 {
                                lap.a[ia][ia] += qi(1);
                            }
                            if ib < n - 1 {
                                lap.a[ib][ib] += qi(1);
                            }
                            if ia < n - 1 && ib < n - 1 {
                                lap.a[ia][ib] -= qi(1);
                                lap.a[ib][ia] -= qi(1);
                            }
                        }
                        q_to_f64(&lap.det()) as usize
                    };
                    assert_eq!(count, expect, "{edges:?}");
                    checked += 1;
                }
                // next
                let mut k = 0;
                loop {
                    if k == ne {
                        break;
                    }
                    idx[k] += 1;
                    if idx[k] < pairs.len() {
                        break;
                    }
                    idx[k] = 0;
                    k += 1;
                }
                if k == ne {
                    break;
                }
            }
        }
        assert!(checked > 1000);
    }
}
