//! `history` engine: all call histories up to a depth on two samplers (C17), serialisation round trips (C18),
//! hash-order / process independence.
use crate::common::*;
use crate::obs::*;
use crate::sampler::*;
use crate::scope::*;
use crate::sprops::fam_for;
use rand::RngCore;
use std::sync::atomic::Ordering;
use std::sync::Mutex;
use serde_json::{json, Value};

/// scripted RngCore: hands out the given u64s, counts draws
pub struct Scripted {
    pub vals: Vec<u64>,
    pub pos: usize,
}
impl RngCore for Scripted {
    fn next_u32(&mut self) -> u32 {
        (self.next_u64() >> 32) as u32
    }
    fn next_u64(&mut self) -> u64 {
        let v = self.vals[self.pos % self.vals.len()];
        self.pos += 1;
        v
    }
    fn fill_bytes(&mut self, dest: &mut [u8]) {
        for d in dest.iter_mut() {
            *d = self.next_u64() as u8;
        }
    }
    fn try_fill_bytes(&mut self, dest: &mut [u8]) -> Result<(), rand::Error> {
        self.fill_bytes(dest);
        Ok(())
    }
}

/// rand 0.8 Standard f64: (u64 >> 11) * 2^-53
pub fn u64_to_unit(v: u64) -> f64 {
    (v >> 11) as f64 * 2f64.powi(-53)
}

pub struct World {
    pub cases: Vec<Case>,
    /// same edge counts as cases[0], cases[1] but different weights: used by the Rebuild operation
    pub alt_cases: Vec<Case>,
    pub alt_kins: Vec<oracle::kin::Kin>,
    pub kins: Vec<oracle::kin::Kin>,
    /// two points per sampler, sharing the lambda coordinate
    pub points: Vec<Vec<Vec<f64>>>,
    pub script: Vec<Vec<u64>>,
    /// scripts with exact zeros on the Box-Muller radius positions
    pub script2: Vec<Vec<u64>>,
    /// alternative edge data (loop-momentum offsets: same signature, different shifts) per history sampler
    pub alt_ed: Vec<EdgeData<f64>>,
    /// the history samplers' edge data with the other mass pattern: massless edges get a (negative) mass, massive ones none
    pub alt_masses: Vec<EdgeData<f64>>,
}

pub fn world() -> World {
    // A: triangle-like, D = 3; B: 2-loop kite with a mass, D = 4 (different dod)
    // weights for which the f64 cumulative edge probabilities end below one (the rounding fall-through of edge selection is used)
    let ga = mk(&[(0, 1), (1, 2), (2, 0)], &[false, false, false], &[0.8, 1.0, 0.8], &[0, 1, 2], 3);
    let gb = mk(&kite(), &[false, true, false, false, false], &[1.5; 5], &[0, 3], 4);
    let ca = Case::new(&CaseSpec { g: ga, mom_variant: 0, mass_variant: 0, label: "A".into() }).expect("A admissible");
    let cb = Case::new(&CaseSpec { g: gb, mom_variant: 1, mass_variant: 0, label: "B".into() }).expect("B admissible");
    let mut points = vec![];
    let mut script = vec![];
    let mut script2: Vec<Vec<u64>> = vec![];
    for (c, orders) in [(&ca, [vec![0, 1, 2], vec![2, 0, 1]]), (&cb, [vec![0, 1, 2, 3, 4], vec![3, 1, 4, 0, 2]])] {
        let mut ps = vec![];
        for (k, o) in orders.iter().enumerate() {
            let mut x = sector_defaults(c, o);
            let ne = c.g.ne();
            if k == 1 {
                x[1] = 0.125;
                let n = x.len();
                x[n - 2] = 0.9;
            }
            x[2 * ne - 2] = 0.375; // shared lambda coordinate
            ps.push(x);
        }
        // third point: the first selection answer is the largest f64 below one
        {
            let mut x = ps[0].clone();
            x[0] = 1.0 - f64::EPSILON / 2.0;
            ps.push(x);
        }
        // scripted rng: a fixed sequence of dyadic numbers
        let n = ps[0].len();
        script.push((0..n as u64).map(|i| ((i.wrapping_mul(0x9E37_79B9_7F4A_7C15u64.wrapping_mul(i + 1))) | 1 << 62) & !(0x7ff) & !(1u64 << 63)).collect::<Vec<u64>>());
        // second script: the same numbers, but exact zeros on the Box-Muller radius positions of the tail
        {
            let ne = c.g.ne();
            let mut z = script.last().unwrap().clone();
            let mut i = 2 * ne - 1;
            while i < n {
                z[i] = 0;
                i += 2;
            }
            script2.push(z);
        }
        points.push(ps);
    }
    // C: two triangles sharing an edge with unequal, non-dyadic weights (any accumulation in hash order shows in the last bits)
    let gc = mk(&kite(), &[false; 5], &[0.7, 0.9, 0.8, 1.1, 0.6], &[0, 3], 3);
    let cc = Case::new(&CaseSpec { g: gc, mom_variant: 0, mass_variant: 0, label: "C".into() }).expect("C admissible");
    {
        let mut x = sector_defaults(&cc, &[2, 0, 4, 1, 3]);
        x[3] = 0.125;
        points.push(vec![x.clone(), x]);
        script.push(vec![1u64 << 62; 64]);
    }
    // same number of edges as A, but two loops: different dimension, dod and table
    let ga2 = mk(&[(0, 1), (0, 1), (0, 1)], &[false, false, false], &[1.25; 3], &[0, 1], 3);
    let gb2 = mk(&kite(), &[false, true, false, false, false], &[1.25; 5], &[0, 3], 4);
    let ca2 = Case::new(&CaseSpec { g: ga2, mom_variant: 0, mass_variant: 0, label: "A'".into() }).expect("A' admissible");
    let cb2 = Case::new(&CaseSpec { g: gb2, mom_variant: 1, mass_variant: 0, label: "B'".into() }).expect("B' admissible");
    let alt_kins = vec![ca2.base_kin(), cb2.base_kin()];
    let kins = vec![ca.base_kin(), cb.base_kin(), cc.base_kin()];
    let alt_ed: Vec<EdgeData<f64>> = (0..2)
        .map(|i| {
            let k = &kins[i];
            let nl = k.nl();
            let dim = [3usize, 4][i];
            let a: Vec<Vec<oracle::Q>> = (0..nl).map(|l| (0..dim).map(|c| oracle::qr(1 + l as i64 + 2 * c as i64, 2)).collect()).collect();
            let ko = k.offset(&a);
            (0..ko.sig.len()).map(|e| (ko.masses[e].as_ref().map(q_exact_f64), ko.shifts[e].iter().map(q_exact_f64).collect())).collect()
        })
        .collect();
    let alt_masses: Vec<EdgeData<f64>> = (0..2)
        .map(|i| {
            let k = &kins[i];
            (0..k.sig.len())
                .map(|e| {
                    let m = match &k.masses[e] {
                        Some(_) => None,
                        None => Some(if e % 2 == 0 { -0.75 } else { 1.25 }),
                    };
                    (m, k.shifts[e].iter().map(q_exact_f64).collect())
                })
                .collect()
        })
        .collect();
    World { cases: vec![ca, cb, cc], alt_cases: vec![ca2, cb2], alt_kins, kins, points, script, script2, alt_ed, alt_masses }
}

pub const SETTINGS8: [Settings; 8] = [
    Settings { stability: None, debug: false, metadata: false },
    Settings { stability: None, debug: false, metadata: true },
    Settings { stability: None, debug: true, metadata: false },
    Settings { stability: None, debug: true, metadata: true },
    Settings { stability: Some(f64::INFINITY), debug: false, metadata: false },
    Settings { stability: Some(f64::INFINITY), debug: false, metadata: true },
    Settings { stability: Some(f64::INFINITY), debug: true, metadata: false },
    Settings { stability: Some(f64::INFINITY), debug: true, metadata: true },
];

#[derive(Clone, Copy, Debug, PartialEq)]
pub enum Op {
    Sample { s: usize, x: usize, st: usize },
    /// the same sampler, the same point, DIFFERENT edge data (loop-momentum offset)
    SampleAlt { s: usize },
    FromRng { s: usize },
    /// scripted generator that returns exact zeros on the Box-Muller radius positions
    FromRngZeros { s: usize },
    /// the same sampler and point, edge data with the OTHER mass pattern (None <-> Some(m)) and signed masses
    SampleMasses { s: usize },
    /// generate_sample_from_rng with a stability test that always fails: Err(Unstable) after exactly get_dimension() draws
    FromRngUnstable { s: usize },
    /// a SECOND sampler for the same graph whose signature rows are assigned to the edges in rotated order (same edge count,
    /// loop count and multiset of rows, different routing) is built and sampled
    SampleRerouted { s: usize },
    CloneS { s: usize },
    GetDim { s: usize },
    Json { s: usize },
    Cbor { s: usize },
    /// the sampler variable is reassigned: a different sampler with the same number of edges is built into the same
    /// place, sampled, and the original is built back into that place
    Rebuild { s: usize },
}

pub fn op_alphabet() -> Vec<Op> {
    let mut v = vec![];
    for s in 0..2 {
        for x in 0..3 {
            for st in 0..8 {
                v.push(Op::Sample { s, x, st });
            }
        }
        v.push(Op::SampleAlt { s });
        v.push(Op::FromRng { s });
        v.push(Op::FromRngZeros { s });
        v.push(Op::SampleMasses { s });
        v.push(Op::FromRngUnstable { s });
        v.push(Op::SampleRerouted { s });
        v.push(Op::CloneS { s });
        v.push(Op::GetDim { s });
        v.push(Op::Json { s });
        v.push(Op::Cbor { s });
        v.push(Op::Rebuild { s });
    }
    v
}

fn fresh(w: &World) -> Vec<Routed> {
    (0..2).map(|i| route(&w.cases[i], &w.kins[i]).expect("history sampler builds")).collect()
}

fn fresh3(w: &World) -> Vec<Routed> {
    (0..3).map(|i| route(&w.cases[i], &w.kins[i]).expect("history sampler builds")).collect()
}

/// observable result of one operation as a bit vector (plus the number of rng draws for FromRng)
pub fn apply(w: &World, rs: &mut Vec<Routed>, op: Op) -> Vec<u64> {
    match op {
        Op::Sample { s, x, st } => match outcome_bits(&rs[s].sampler.sample_with(&w.points[s][x], &rs[s].ed, &SETTINGS8[st], &NullLogger)) {
            Ok(b) => b,
            Err(e) => vec![u64::MAX, fnv(&e)],
        },
        Op::SampleAlt { s } => match outcome_bits(&rs[s].sampler.sample_with(&w.points[s][1], &w.alt_ed[s], &Settings::META, &NullLogger)) {
            Ok(b) => b,
            Err(e) => vec![u64::MAX, fnv(&e)],
        },
        Op::SampleMasses { s } => match outcome_bits(&rs[s].sampler.sample_with(&w.points[s][0], &w.alt_masses[s], &Settings::META, &NullLogger)) {
            Ok(b) => b,
            Err(e) => vec![u64::MAX, fnv(&e)],
        },
        Op::SampleRerouted { s } => {
            let k = &w.kins[s];
            let ne = k.sig.len();
            let mut k2 = k.clone();
            for e in 0..ne {
                k2.sig[e] = k.sig[(e + 1) % ne].clone();
            }
            match route(&w.cases[s], &k2) {
                Ok(r2) => match outcome_bits(&r2.sampler.sample_with(&w.points[s][0], &rs[s].ed, &Settings::META, &NullLogger)) {
                    Ok(b) => b,
                    Err(e) => vec![u64::MAX, fnv(&e)],
                },
                Err(e) => vec![u64::MAX - 1, fnv(&e)],
            }
        }
        Op::FromRngUnstable { s } => {
            let mut rng = Scripted { vals: w.script[s].clone(), pos: 0 };
            let st = Settings { stability: Some(-1.0), debug: false, metadata: true };
            let o = rs[s].sampler.sample_rng(&rs[s].ed, &st, &mut rng, &NullLogger);
            let mut b = match outcome_bits(&o) {
                Ok(b) => b,
                Err(e) => vec![u64::MAX, fnv(&e)],
            };
            b.push(rng.pos as u64);
            b
        }
        Op::FromRng { s } | Op::FromRngZeros { s } => {
            let vals = if matches!(op, Op::FromRngZeros { .. }) { w.script2[s].clone() } else { w.script[s].clone() };
            let mut rng = Scripted { vals, pos: 0 };
            let o = rs[s].sampler.sample_rng(&rs[s].ed, &Settings::META, &mut rng, &NullLogger);
            let mut b = match outcome_bits(&o) {
                Ok(b) => b,
                Err(e) => vec![u64::MAX, fnv(&e)],
            };
            b.push(rng.pos as u64);
            b
        }
        Op::CloneS { s } => {
            let c = rs[s].sampler.clone_sampler();
            rs[s].sampler = c;
            vec![1]
        }
        Op::GetDim { s } => vec![rs[s].sampler.get_dimension().map(|d| d as u64).unwrap_or(u64::MAX)],
        Op::Json { s } => {
            let txt = rs[s].sampler.to_json_string();
            match Sampler::from_json_str(w.cases[s].g.dim, &txt) {
                Ok(n) => {
                    rs[s].sampler = n;
                    vec![1]
                }
                Err(e) => vec![u64::MAX, fnv(&e)],
            }
        }
        Op::Rebuild { s } => {
            // in-place replacement: the new sampler occupies the memory of the old one
            rs[s] = route(&w.alt_cases[s], &w.alt_kins[s]).expect("alt sampler builds");
            let ne = w.alt_cases[s].g.ne();
            let mut x = sector_defaults(&w.alt_cases[s], &(0..ne).collect::<Vec<usize>>());
            x[2 * ne - 2] = 0.375; // the lambda coordinate shared by all history points
            let mut out = match outcome_bits(&rs[s].sampler.sample(&x, &rs[s].ed, &Settings::META)) {
                Ok(b) => b,
                Err(e) => vec![u64::MAX, fnv(&e)],
            };
            out.push(rs[s].sampler.get_dimension().map(|d| d as u64).unwrap_or(u64::MAX));
            // the replacement is also driven through generate_sample_from_rng (its number of draws differs from the original's
            // for sampler A): whatever the library remembers about "the sampler at this address" is now about the replacement
            {
                let mut rng = Scripted { vals: (0..64u64).map(|i| ((i + 3).wrapping_mul(0x9E37_79B9_7F4A_7C15) | 1 << 62) & !(0x7ff) & !(1u64 << 63)).collect(), pos: 0 };
                let o = rs[s].sampler.sample_rng(&rs[s].ed, &Settings::META, &mut rng, &NullLogger);
                match outcome_bits(&o) {
                    Ok(b) => out.extend(b),
                    Err(e) => out.extend([u64::MAX, fnv(&e)]),
                }
                out.push(rng.pos as u64);
            }
            rs[s] = route(&w.cases[s], &w.kins[s]).expect("history sampler builds");
            out.push(rs[s].sampler.get_dimension().map(|d| d as u64).unwrap_or(u64::MAX));
            out
        }
        Op::Cbor { s } => {
            let b = rs[s].sampler.to_cbor();
            match Sampler::from_cbor(w.cases[s].g.dim, &b) {
                Ok(n) => {
                    rs[s].sampler = n;
                    vec![1]
                }
                Err(e) => vec![u64::MAX, fnv(&e)],
            }
        }
    }
}

/// reference: every operation applied first to freshly built samplers
pub fn reference(w: &World) -> Vec<Vec<u64>> {
    op_alphabet()
        .into_iter()
        .map(|op| {
            let mut rs = fresh(w);
            apply(w, &mut rs, op)
        })
        .collect()
}

pub fn digest_of_reference() -> u64 {
    let w = world();
    let r = reference(&w);
    let mut h = 0xcbf29ce484222325u64;
    for v in r {
        for x in v {
            h ^= x;
            h = h.wrapping_mul(0x100000001b3);
        }
    }
    // plus the serialisations and a sample of the third sampler (unequal non-dyadic weights)
    for r in fresh3(&w) {
        h ^= fnv(&r.sampler.to_json_string());
        h = h.wrapping_mul(0x100000001b3);
    }
    let r3 = fresh3(&w);
    if let Ok(b) = outcome_bits(&r3[2].sampler.sample(&w.points[2][0], &r3[2].ed, &Settings::META)) {
        for x in b {
            h ^= x;
            h = h.wrapping_mul(0x100000001b3);
        }
    }
    h
}

fn hist_case(h: &[usize]) -> Value {
    json!({"engine": "history", "ops": h})
}

pub fn run_histories(ctx: &Ctx, acc: &mut Acc) {
    let w = world();
    let alpha = op_alphabet();
    let refs = reference(&w);
    let depth = ctx.tier.pick(3, 4);
    // static clauses on the reference itself
    for s in 0..2 {
        // from_rng == from_x_space_point on the converted numbers, exactly get_dimension() draws
        for (op, scr) in [(Op::FromRng { s }, &w.script[s]), (Op::FromRngZeros { s }, &w.script2[s])] {
            let idx = alpha.iter().position(|o| *o == op).unwrap();
            let r = &refs[idx];
            let draws = *r.last().unwrap();
            let dim = fresh(&w)[s].sampler.get_dimension().unwrap_or(0) as u64;
            if draws != dim {
                acc.violate(format!("C17/from_rng-draws/{s}/{idx}"), "generate_sample_from_rng draws exactly get_dimension() numbers", format!("sampler {s}: {draws} draws, get_dimension() = {dim}"), hist_case(&[idx]));
            }
            let x: Vec<f64> = scr.iter().take(dim as usize).map(|&v| u64_to_unit(v)).collect();
            let rs = fresh(&w);
            let direct = match outcome_bits(&rs[s].sampler.sample(&x, &rs[s].ed, &Settings::META)) {
                Ok(b) => b,
                Err(e) => vec![u64::MAX, fnv(&e)],
            };
            if direct[..] != r[..r.len() - 1] {
                acc.violate(format!("C17/from_rng-equals-x-space/{s}/{idx}"), "from_rng returns what from_x_space_point returns for those numbers", format!("sampler {s}, script {:?}: results differ", op), hist_case(&[idx]));
            }
        }
        // with a stability test that fails, from_rng still draws exactly get_dimension() numbers and reports the error of
        // the x-space entry point for those numbers (no silent redraw)
        {
            let idx = alpha.iter().position(|o| *o == Op::FromRngUnstable { s }).unwrap();
            let r = &refs[idx];
            let draws = *r.last().unwrap();
            let dim = fresh(&w)[s].sampler.get_dimension().unwrap_or(0) as u64;
            let x: Vec<f64> = w.script[s].iter().take(dim as usize).map(|&v| u64_to_unit(v)).collect();
            let rs = fresh(&w);
            let st = Settings { stability: Some(-1.0), debug: false, metadata: true };
            let direct = match outcome_bits(&rs[s].sampler.sample(&x, &rs[s].ed, &st)) {
                Ok(b) => b,
                Err(e) => vec![u64::MAX, fnv(&e)],
            };
            if draws != dim || direct[..] != r[..r.len() - 1] {
                acc.violate(format!("C17/from_rng-with-failing-stability-test/{s}/{idx}"), "generate_sample_from_rng draws exactly get_dimension() numbers and returns what from_x_space_point returns for those numbers", format!("sampler {s}, matrix_stability_test = Some(-1): {draws} draws (get_dimension() = {dim}); same outcome as the x-space entry: {}", direct[..] == r[..r.len() - 1]), hist_case(&[idx]));
            }
        }
        // metadata / debug / stability(inf) do not change the numerical result
        for xi in 0..3 {
            let rs = fresh(&w);
            let base = match &rs[s].sampler.sample(&w.points[s][xi], &rs[s].ed, &SETTINGS8[0]) {
                Outcome::Ok(sm) => core_bits(sm),
                _ => vec![],
            };
            for (k, st) in SETTINGS8.iter().enumerate() {
                let o = rs[s].sampler.sample_with(&w.points[s][xi], &rs[s].ed, st, &NullLogger);
                let c = match &o {
                    Outcome::Ok(sm) => core_bits(sm),
                    _ => vec![u64::MAX],
                };
                acc.inc("settings_pairs_compared");
                if c != base {
                    acc.violate(format!("C17/settings-change-result/{s}/{xi}/{k}"), "return_metadata and print_debug_info do not change the numerical result", format!("sampler {s} point {xi}: settings {:?} changed loop momenta / u / v / jacobian", st), hist_case(&[]));
                }
            }
        }
    }
    // settings that make the stability test FAIL: debug output and metadata must not change the verdict either
    {
        let rs = fresh3(&w);
        for s in 0..3 {
            for x in &w.points[s] {
                let verdict = |st: &Settings| -> String {
                    match rs[s].sampler.sample_with(x, &rs[s].ed, st, &NullLogger) {
                        Outcome::Ok(sm) => format!("Ok:{:?}", core_bits(&sm)),
                        Outcome::Err(e) => format!("Err:{e}"),
                        Outcome::Panic(p) => format!("Panic:{p}"),
                    }
                };
                for tol in [0.0, 1e-300, -1.0] {
                    let base = verdict(&Settings { stability: Some(tol), debug: false, metadata: false });
                    for (dbg, meta) in [(true, false), (false, true), (true, true)] {
                        acc.inc("settings_pairs_compared");
                        let v = verdict(&Settings { stability: Some(tol), debug: dbg, metadata: meta });
                        if v != base {
                            acc.violate(format!("C17/settings-change-verdict/{s}/{dbg}/{meta}"), "return_metadata and print_debug_info do not change the result", format!("sampler {s}, matrix_stability_test = Some({tol:e}): debug={dbg}, metadata={meta} gives {} but the quiet run gives {}", &v[..v.len().min(40)], &base[..base.len().min(40)]), hist_case(&[]));
                        }
                    }
                }
            }
        }
        // from_rng draw count and equality with the x-space entry point for the third sampler too (odd D, two loops)
        let dim = rs[2].sampler.get_dimension().unwrap_or(0);
        let mut rng = Scripted { vals: w.script[2].clone(), pos: 0 };
        let o = rs[2].sampler.sample_rng(&rs[2].ed, &Settings::META, &mut rng, &NullLogger);
        if rng.pos != dim {
            acc.violate("C17/from_rng-draws/2".into(), "generate_sample_from_rng draws exactly get_dimension() numbers", format!("third sampler (D=3, two loops): {} draws, get_dimension() = {dim}", rng.pos), hist_case(&[]));
        }
        let x: Vec<f64> = w.script[2].iter().cycle().take(dim).map(|&v| u64_to_unit(v)).collect();
        if outcome_bits(&o) != outcome_bits(&rs[2].sampler.sample(&x, &rs[2].ed, &Settings::META)) {
            acc.violate("C17/from_rng-equals-x-space/2".into(), "from_rng returns what from_x_space_point returns for those numbers", "third sampler: results differ".into(), hist_case(&[]));
        }
    }
    // all histories up to the depth: partitioned by the first operation over single-threaded worker processes
    // (process isolation: if the code under test had process-global state, concurrent explorers in one process would
    // disturb each other and a failure would not replay)
    match histories_in_processes(ctx.tier, depth) {
        Ok(a) => acc.merge(a),
        Err(e) => {
            eprintln!("[C17] MACHINERY: history workers: {e}");
            acc.inc("items_skipped_by_time_cap");
        }
    }
}

pub fn histories_part(depth: usize, part: usize, nparts: usize) -> Acc {
    let w = world();
    let alpha = op_alphabet();
    let refs = reference(&w);
    let ser0: Vec<String> = fresh(&w).iter().map(|r| r.sampler.to_json_string()).collect();
    let n = alpha.len();
    let mut acc = Acc::new();
    for first in 0..n {
        if first % nparts != part {
            continue;
        }
        let mut hist = vec![first];
        'outer: loop {
            if time_up() {
                acc.inc("items_skipped_by_time_cap");
                return acc;
            }
            let mut rs = fresh(&w);
            acc.inc("histories");
            for (step, &oi) in hist.iter().enumerate() {
                let got = apply(&w, &mut rs, alpha[oi]);
                acc.inc("operations");
                if got != refs[oi] {
                    acc.violate(
                        format!("C17/history/{:016x}", fnv(&format!("{hist:?}"))),
                        "same call gives bit-identical results regardless of the history",
                        format!("operation {:?} at step {step} of history {:?} differs from the same call on a fresh sampler", alpha[oi], hist.iter().map(|&i| format!("{:?}", alpha[i])).collect::<Vec<_>>()),
                        hist_case(&hist),
                    );
                    break;
                }
                if hist.len() <= 3 || step + 1 == hist.len() {
                    for s in 0..2 {
                        if rs[s].sampler.to_json_string() != ser0[s] {
                            acc.violate(
                                format!("C17/sampler-modified/{:016x}", fnv(&format!("{hist:?}"))),
                                "a sampler is never modified by sampling",
                                format!("serialisation of sampler {s} changed after step {step} of history {:?}", hist),
                                hist_case(&hist),
                            );
                        }
                    }
                }
            }
            if acc.samples.len() < 2 && hist.len() == depth && first == 7 {
                acc.sample(json!({"history": hist.iter().map(|&i| format!("{:?}", alpha[i])).collect::<Vec<_>>() }));
            }
            if hist.len() < depth {
                hist.push(0);
            } else {
                loop {
                    let last = hist.len() - 1;
                    if last == 0 {
                        break 'outer;
                    }
                    hist[last] += 1;
                    if hist[last] < n {
                        break;
                    }
                    hist.pop();
                }
            }
        }
    }
    acc
}

pub fn history_worker_main(args: &[String]) -> i32 {
    let depth: usize = args[0].parse().unwrap();
    let part: usize = args[1].parse().unwrap();
    let nparts: usize = args[2].parse().unwrap();
    let acc = histories_part(depth, part, nparts);
    out_line(&acc.to_json().to_string());
    0
}

fn histories_in_processes(_tier: Tier, depth: usize) -> Result<Acc, String> {
    let exe = std::env::current_exe().map_err(|e| e.to_string())?;
    let nparts = 14usize;
    let mut children = vec![];
    for part in 0..nparts {
        children.push(
            std::process::Command::new(&exe)
                .args(["C17", "--history-worker", &depth.to_string(), &part.to_string(), &nparts.to_string()])
                .stdout(std::process::Stdio::piped())
                .stderr(std::process::Stdio::null())
                .spawn()
                .map_err(|e| e.to_string())?,
        );
    }
    let mut total = Acc::new();
    for c in children {
        let out = c.wait_with_output().map_err(|e| e.to_string())?;
        let txt = String::from_utf8_lossy(&out.stdout);
        let line = txt.lines().last().ok_or("history worker produced no output")?;
        let v: Value = serde_json::from_str(line).map_err(|e| format!("history worker output: {e}"))?;
        total.merge(Acc::from_json(&v));
    }
    Ok(total)
}

/// get_dimension() and from_rng under every hash iteration order
pub fn run_hash_orders(acc: &mut Acc) {
    use momtrop::verif_hooks::set_hash_order;
    let w = world();
    let alpha = op_alphabet();
    let refs = reference(&w);
    // third sampler: fingerprint of the built table and a sample under every order
    {
        set_hash_order(None);
        let base = fresh3(&w);
        let fp0 = base[2].sampler.to_json_string();
        let s0 = outcome_bits(&base[2].sampler.sample(&w.points[2][0], &base[2].ed, &Settings::META));
        for p in all_permutations(w.cases[2].g.ne()) {
            let mut perm: Vec<u64> = (0..256u64).map(|k| k + 1000).collect();
            for (k, &v) in p.iter().enumerate() {
                perm[k] = v as u64;
            }
            set_hash_order(Some(perm));
            let r = route(&w.cases[2], &w.kins[2]);
            set_hash_order(None);
            acc.inc("hash_order_calls");
            let ok = match &r {
                Ok(r) => r.sampler.to_json_string() == fp0 && outcome_bits(&r.sampler.sample(&w.points[2][0], &r.ed, &Settings::META)) == s0,
                Err(_) => false,
            };
            if !ok {
                acc.violate(format!("C17/hash-order/2/{:?}", p), "results do not depend on the process (hash seeds)", format!("sampler with unequal non-dyadic weights built under hash order {p:?} differs (table or sample) from the production-hasher build"), json!({"engine": "history", "ops": [], "hash_order": p, "third": true}));
                break;
            }
        }
    }
    for s in 0..2 {
        let ne = w.cases[s].g.ne();
        for p in all_permutations(ne) {
            let mut perm: Vec<u64> = (0..256u64).map(|k| k + 1000).collect();
            for (k, &v) in p.iter().enumerate() {
                perm[k] = v as u64;
            }
            set_hash_order(Some(perm));
            let mut rs = fresh(&w);
            for op in [Op::GetDim { s }, Op::FromRng { s }, Op::Sample { s, x: 0, st: 1 }] {
                let idx = alpha.iter().position(|o| *o == op).unwrap();
                let got = apply(&w, &mut rs, op);
                acc.inc("hash_order_calls");
                if got != refs[idx] {
                    acc.violate(format!("C17/hash-order/{s}/{:?}", p), "results do not depend on the process (hash seeds)", format!("{op:?} under hash order {p:?} differs from the production-hasher result"), json!({"engine": "history", "ops": [idx], "hash_order": p}));
                }
            }
            set_hash_order(None);
        }
    }
}

pub fn run_processes(ctx: &Ctx, acc: &mut Acc) -> Result<(), String> {
    let exe = std::env::current_exe().map_err(|e| e.to_string())?;
    let mine = digest_of_reference();
    let n = ctx.tier.pick(3, 8);
    for k in 0..n {
        let out = std::process::Command::new(&exe).args(["C17", "--child-digest"]).output().map_err(|e| e.to_string())?;
        let txt = String::from_utf8_lossy(&out.stdout);
        let d: u64 = txt.lines().last().and_then(|l| l.trim().parse().ok()).ok_or("child digest unreadable")?;
        acc.inc("child_processes");
        if d != mine {
            acc.violate(format!("C17/process/{k}"), "bit-identical results in which process", format!("child process {k} computed digest {d:#x}, parent {mine:#x} over the same calls on freshly built samplers"), json!({"engine": "history", "ops": [], "process": k}));
        }
    }
    Ok(())
}

/// The same corpus through momtrop built WITHOUT any cargo feature (the `nolog` binary): results must not depend on the
/// feature set of the build; in particular the `#[cfg(not(feature = "log"))]` branches (debug printing) must not change them.
pub fn run_nolog(ctx: &Ctx, acc: &mut Acc) -> Result<(), String> {
    let root = verif_dir();
    let bin = format!("{root}/target/release/nolog");
    if !std::path::Path::new(&bin).exists() {
        return Err(format!("{bin} not built (./check builds it with `cargo build -p nolog`)"));
    }
    let all = fam_for(Tier::Quick, "C17");
    let want = ctx.tier.pick(160usize, 600usize);
    let step = (all.len() / want).max(1);
    let roles = Roles { u: true, xi: true, p: true, ab: true, xi_moderate: true, xi_ladder: false };
    let settings = [
        Settings::DEFAULT,
        Settings::META,
        Settings { stability: None, debug: true, metadata: false },
        Settings::FULL,
        Settings { stability: Some(f64::INFINITY), debug: true, metadata: true },
    ];
    let hx = |x: f64| format!("{:016x}", x.to_bits());
    let mut corpus = vec![];
    let mut mine: Vec<Vec<Result<Vec<u64>, String>>> = vec![];
    for spec in all.iter().step_by(step) {
        let case = match Case::new(spec) {
            Some(c) => c,
            None => continue,
        };
        let r = match route(&case, &case.base_kin()) {
            Ok(r) => r,
            Err(_) => continue,
        };
        let order: Vec<usize> = (0..case.g.ne()).rev().collect();
        let mut pts: Vec<Vec<f64>> = sector_points(&case, &order, 1, &roles).into_iter().map(|p| p.0).collect();
        pts.truncate(40);
        let mut res = vec![];
        for st in &settings {
            for x in &pts {
                res.push(outcome_bits(&r.sampler.sample_with(x, &r.ed, st, &NullLogger)));
            }
        }
        mine.push(res);
        corpus.push(json!({
            "dim": case.g.dim,
            "edges": (0..case.g.ne()).map(|e| json!({"v": [r.graph.edges[e].0, r.graph.edges[e].1], "massive": case.g.massive[e], "weight": hx(case.g.weights[e])})).collect::<Vec<_>>(),
            "externals": case.g.externals,
            "sig": r.kin.sig,
            "edge_data": r.ed.iter().map(|(m, s)| json!({"mass": m.map(hx), "shift": s.iter().map(|c| hx(*c)).collect::<Vec<_>>()})).collect::<Vec<_>>(),
            "settings": settings.iter().map(|s| json!({"stability": s.stability.map(hx), "debug": s.debug, "metadata": s.metadata})).collect::<Vec<_>>(),
            "points": pts.iter().map(|x| x.iter().map(|c| hx(*c)).collect::<Vec<_>>()).collect::<Vec<_>>(),
        }));
    }
    let cpath = format!("{root}/target/nolog_corpus_{}.json", std::process::id());
    let opath = format!("{root}/target/nolog_out_{}.json", std::process::id());
    std::fs::write(&cpath, serde_json::to_string(&corpus).unwrap()).map_err(|e| e.to_string())?;
    let status = std::process::Command::new(&bin).args([&cpath, &opath]).stdout(std::process::Stdio::null()).stderr(std::process::Stdio::null()).status().map_err(|e| e.to_string())?;
    if !status.success() {
        return Err("nolog binary failed".into());
    }
    let out: Value = serde_json::from_str(&std::fs::read_to_string(&opath).map_err(|e| e.to_string())?).map_err(|e| e.to_string())?;
    let _ = std::fs::remove_file(&cpath);
    let _ = std::fs::remove_file(&opath);
    let arr = out.as_array().ok_or("nolog output")?;
    if arr.len() != mine.len() {
        return Err("nolog output has the wrong length".into());
    }
    for (ci, (theirs, ours)) in arr.iter().zip(mine.iter()).enumerate() {
        acc.inc("nolog_cases");
        if theirs["build"] != "Ok" {
            acc.violate(format!("C17/build-feature/build/{ci}"), "results do not depend on the build's cargo features", format!("corpus entry {ci}: the build without features gives {} while the `log` build accepts the graph", theirs["build"]), json!({"engine": "nolog", "entry": corpus[ci]}));
            continue;
        }
        let rs = theirs["results"].as_array().cloned().unwrap_or_default();
        for (k, (t, o)) in rs.iter().zip(ours.iter()).enumerate() {
            acc.inc("nolog_results_compared");
            let same = match (o, t.get("ok"), t.get("err"), t.get("panic")) {
                (Ok(b), Some(tb), _, _) => {
                    let tv: Vec<u64> = tb.as_array().unwrap().iter().map(|x| u64::from_str_radix(x.as_str().unwrap(), 16).unwrap()).collect();
                    let nan_eq = |a: u64, b: u64| a == b || (f64::from_bits(a).is_nan() && f64::from_bits(b).is_nan());
                    tv.len() == b.len() && tv.iter().zip(b.iter()).all(|(x, y)| nan_eq(*x, *y))
                }
                (Err(e), _, Some(te), _) => te.as_str().map(|s| e.contains("Err") && (s.contains("ZeroDet") == e.contains("ZeroDet")) && (s.contains("Unstable") == e.contains("Unstable")) && (s.contains("Gamma") == e.contains("Gamma"))).unwrap_or(false),
                (Err(e), _, _, Some(_)) => e.contains("Panic"),
                _ => false,
            };
            if !same {
                acc.violate(
                    format!("C17/build-feature/{ci}/{k}"),
                    "results do not depend on the build's cargo features (print_debug_info does not change the numerical result)",
                    format!("corpus entry {ci}, result {k} (settings {} / point {}): the build without features differs from the `log` build", k / (rs.len() / 5).max(1), k % (rs.len() / 5).max(1)),
                    json!({"engine": "nolog", "entry": corpus[ci], "result": k}),
                );
                break;
            }
        }
    }
    Ok(())
}

/// SUPPLEMENTARY, NOT EXHAUSTIVE (sampling of schedules by the operating system): four free-running threads sample three
/// samplers of different degree of divergence in turn and compare every result with the single-threaded reference. The
/// controlled scheduler only preempts at scalar operations of the generic code; shared state inside non-generic f64 code
/// (which does not exist on the unchanged tree) has no scheduling point there - this pass is the separate free-running run of
/// the same bodies that looks at it. A mismatch is a real observation on the real code and is reported as a violation.
pub fn run_free_running(ctx: &Ctx, acc: &mut Acc) {
    let w = world();
    let n_iter = ctx.tier.pick(3000usize, 30000);
    let refs: Vec<Vec<Vec<u64>>> = {
        let rs = fresh3(&w);
        (0..3)
            .map(|s| {
                w.points[s]
                    .iter()
                    .map(|x| match outcome_bits(&rs[s].sampler.sample(x, &rs[s].ed, &Settings::META)) {
                        Ok(b) => b,
                        Err(e) => vec![u64::MAX, fnv(&e)],
                    })
                    .collect()
            })
            .collect()
    };
    let shared = fresh3(&w);
    let mismatches = std::sync::atomic::AtomicUsize::new(0);
    let first: Mutex<Option<String>> = Mutex::new(None);
    std::thread::scope(|sc| {
        for t in 0..4usize {
            let (w, refs, shared, mismatches, first) = (&w, &refs, &shared, &mismatches, &first);
            sc.spawn(move || {
                // own samplers for the odd threads, the shared ones for the even threads
                let own = fresh3(w);
                for i in 0..n_iter {
                    let s = (t + i) % 3;
                    let xi = i % w.points[s].len();
                    let r = if t % 2 == 0 { &shared[s] } else { &own[s] };
                    let got = match outcome_bits(&r.sampler.sample(&w.points[s][xi], &r.ed, &Settings::META)) {
                        Ok(b) => b,
                        Err(e) => vec![u64::MAX, fnv(&e)],
                    };
                    if got != refs[s][xi] {
                        mismatches.fetch_add(1, Ordering::SeqCst);
                        let mut f = first.lock().unwrap();
                        if f.is_none() {
                            *f = Some(format!("thread {t}, iteration {i}, sampler {s}, point {xi}"));
                        }
                    }
                }
            });
        }
    });
    acc.add("free_running_executions(uncontrolled, supplementary)", (4 * n_iter) as u64);
    let m = mismatches.load(Ordering::SeqCst);
    if m > 0 {
        acc.violate(
            "C17/free-running-threads".into(),
            "bit-identical results from how many threads concurrently",
            format!("{m} of {} samples drawn by four free-running threads (three samplers of different dod in turn) differ from the single-threaded reference; first: {}", 4 * n_iter, first.lock().unwrap().clone().unwrap_or_default()),
            json!({"engine": "history", "ops": [], "free_running": true}),
        );
    }
}

pub fn run_c17(ctx: &Ctx) -> i32 {
    let mut acc = Acc::new();
    if let Err(e) = run_nolog(ctx, &mut acc) {
        eprintln!("[C17] MACHINERY: {e}");
        return 2;
    }
    run_histories(ctx, &mut acc);
    run_free_running(ctx, &mut acc);
    run_hash_orders(&mut acc);
    if let Err(e) = run_processes(ctx, &mut acc) {
        eprintln!("[C17] MACHINERY: {e}");
        return 2;
    }
    if let Err(e) = crate::sched::run_schedules(ctx, &mut acc) {
        eprintln!("[C17] MACHINERY: {e}");
        return 2;
    }
    // source scan (assumption, not the check): no process-global mutable state in the crate today
    let mut scan = vec![];
    if let Ok(rd) = std::fs::read_dir("/repo/src") {
        for e in rd.flatten() {
            if let Ok(t) = std::fs::read_to_string(e.path()) {
                for (ln, l) in t.lines().enumerate() {
                    let l2 = l.trim();
                    if e.file_name() == "verif_hooks.rs" || l2.starts_with("//") {
                        continue;
                    }
                    if l2.contains("static ") && !l2.contains("'static") || l2.contains("thread_local!") || l2.contains("unsafe ") || l2.contains("Cell<") || l2.contains("Atomic") || l2.contains("Mutex") {
                        scan.push(format!("{}:{}: {}", e.file_name().to_string_lossy(), ln + 1, l2));
                    }
                }
            }
        }
    }
    acc.violations.sort_by(|a, b| (a.key.as_str(), a.what.as_str()).cmp(&(b.key.as_str(), b.what.as_str())));
    let mut extra = serde_json::Map::new();
    extra.insert("source_scan_global_state_candidates(assumption only)".into(), json!(scan));
    let fin = Finish {
        level: "model_checking",
        rule: format!("(histories) all sequences up to depth {} over a 70-operation alphabet on two samplers (sample x 8 settings x 3 points incl. u = 1-2^-53, sample with different edge data, sample with the other mass pattern (None <-> Some, signed), from_rng with two scripted RngCores incl. exact zeros, from_rng under a stability test that always fails, a second sampler of the same graph with rotated signature rows, clone, get_dimension, JSON and CBOR round trips, in-place rebuild of a different sampler with the same edge count), each re-executed on freshly built samplers and compared bit-for-bit with the same call made first on a fresh sampler, serialisations compared after every step; (schedules) all interleavings of 2-3 real OS threads sharing a sampler with at most p preemptions, scheduling points = every scalar operation, under an own baton scheduler with DFS over schedules, a planted impurity must be caught first; (configurations) all E! hash iteration orders; child processes; a corpus of samples through a second build of momtrop without any cargo feature. states = histories + schedules, transitions = operations + scheduling decisions", ctx.tier.pick(3, 4)),
        states: acc.get("histories") + acc.get("schedules"),
        transitions: acc.get("operations") + acc.get("schedules"),
        traces: acc.get("histories") + acc.get("schedules"),
        evaluations: acc.get("histories") + acc.get("schedules"),
        distinct_nontrivial: acc.get("histories") + acc.get("schedules"),
        exhaustive: acc.get("schedule_cap_hit") == 0,
        bounds: json!({"history_depth": ctx.tier.pick(3, 4), "operation_alphabet": 70, "preemption_bounds": acc.hist.get("preemption_bound_completed"), "threads": "2 (thorough: also 3)"}),
        assumptions: vec![
            "preemption happens only at scalar-operation boundaries of the generic code; non-generic f64 code (Gamma quantile, component search) has no scheduling points and no shared state today (source scan reported in coverage, as an assumption); a separate free-running pass (four OS threads, uncontrolled, supplementary - sampling, not exhaustive) runs the same bodies and would show a data race there".into(),
        ],
        extra,
    };
    finish(ctx, &acc, fin)
}

pub fn replay_history(ctx: &Ctx, case: &Value) -> i32 {
    if case["free_running"].as_bool().unwrap_or(false) {
        let mut acc = Acc::new();
        run_free_running(ctx, &mut acc);
        for v in &acc.violations {
            eprintln!("  reproduced: [{}] {}", v.clause, v.what);
        }
        if acc.violations.is_empty() {
            eprintln!("  no mismatch in this free-running run (uncontrolled schedules: a data race may need several runs)");
        }
        return if acc.violations.is_empty() { 0 } else { 1 };
    }
    let w = world();
    let alpha = op_alphabet();
    let refs = reference(&w);
    let ops: Vec<usize> = case["ops"].as_array().unwrap().iter().map(|v| v.as_u64().unwrap() as usize).collect();
    if let Some(p) = case.get("hash_order").and_then(|p| p.as_array()) {
        let p: Vec<usize> = p.iter().map(|v| v.as_u64().unwrap() as usize).collect();
        let mut perm: Vec<u64> = (0..256u64).map(|k| k + 1000).collect();
        for (k, &v) in p.iter().enumerate() {
            perm[k] = v as u64;
        }
        momtrop::verif_hooks::set_hash_order(Some(perm));
    }
    let mut rs = fresh(&w);
    let mut bad = 0;
    for (step, &oi) in ops.iter().enumerate() {
        let got = apply(&w, &mut rs, alpha[oi]);
        let same = got == refs[oi];
        eprintln!("step {step}: {:?} -> {}", alpha[oi], if same { "identical to fresh-sampler result" } else { "DIFFERS from fresh-sampler result" });
        if !same {
            bad = 1;
        }
    }
    momtrop::verif_hooks::set_hash_order(None);
    if bad == 0 {
        eprintln!("  no violation reproduced");
    }
    bad
}

// =====================================================================================================
// C18
// =====================================================================================================

/// E x max(L,1) signature with one unit entry per loop column: L matrix = diag(x_0..x_{L-1}), always decomposable
pub fn ident_sig(g: &oracle::graph::OGraph) -> Vec<Vec<isize>> {
    let l = g.loop_number(g.full()).max(1);
    (0..g.ne()).map(|e| (0..l).map(|c| (e == c) as isize).collect()).collect()
}

/// differential sample (no oracle needed): original vs restored sampler at a fixed point, any accepted graph incl.
/// disconnected ones
fn c18_sample_bits(g: &oracle::graph::OGraph, s: &Sampler) -> Option<Result<Vec<u64>, String>> {
    if g.loop_number(g.full()) == 0 {
        return None;
    }
    let dim = s.get_dimension().ok()?;
    let mut x = vec![0.5; dim];
    for i in (0..dim).step_by(3) {
        x[i] = 0.3;
    }
    let ed: EdgeData<f64> = (0..g.ne())
        .map(|e| (if g.massive[e] { Some(1.0) } else { None }, (0..g.dim).map(|c| if e == 0 { 0.5 + c as f64 } else { 0.0 }).collect()))
        .collect();
    Some(outcome_bits(&s.sample(&x, &ed, &Settings::META)))
}

fn c18_graph(g: &oracle::graph::OGraph, acc: &mut Acc) -> Option<Sampler> {
    let s = match build(g, &ident_sig(g)) {
        BuildOutcome::Ok(s) => s,
        _ => return None,
    };
    let sample0 = c18_sample_bits(g, &s);
    acc.inc("samplers");
    let key = |c: &str| format!("C18/{c}/{:016x}", fnv(&graph_json(g).to_string()));
    let case = || json!({"engine": "c18", "graph": graph_json(g)});
    let v0 = s.to_json_value();
    let finite = !v0.to_string().contains("null");
    // CBOR is binary exact, also for non-finite values
    let cb = s.to_cbor();
    match Sampler::from_cbor(g.dim, &cb) {
        Ok(s2) => {
            acc.inc("cbor_roundtrips");
            if s2.to_cbor() != cb {
                acc.violate(key("cbor-reserialise"), "ser(de(ser(S))) = ser(S) (CBOR)", "CBOR re-serialisation differs".into(), case());
            }
            if s2.get_dimension() != s.get_dimension() || s2.get_dod().to_bits() != s.get_dod().to_bits() || s2.edge_weights().iter().map(|w| w.to_bits()).collect::<Vec<_>>() != s.edge_weights().iter().map(|w| w.to_bits()).collect::<Vec<_>>() || s2.get_num_edges() != s.get_num_edges() {
                acc.violate(key("cbor-accessors"), "same dimension, dod, weights", "accessors differ after CBOR round trip".into(), case());
            }
            if sample0.is_some() {
                acc.inc("restored_samples_compared");
                if c18_sample_bits(g, &s2) != sample0 {
                    acc.violate(key("cbor-sample"), "restored sampler produces bit-identical samples", "a sample from the sampler restored through CBOR differs".into(), case());
                }
            }
        }
        Err(e) => {
            acc.violate(key("cbor-deserialise"), "deserialises", format!("CBOR deserialisation failed: {e}"), case());
        }
    }
    if finite {
        // positional-struct format
        match s.to_seq_value().and_then(|v| Sampler::from_seq_value(g.dim, v)) {
            Ok(s2) => {
                acc.inc("seq_roundtrips");
                if s2.to_json_value() != v0 {
                    acc.violate(key("seq-table"), "same table (format that writes structs positionally)", "table differs after a round trip through a format that writes structs as sequences".into(), case());
                } else if sample0.is_some() {
                    acc.inc("restored_samples_compared");
                    if c18_sample_bits(g, &s2) != sample0 {
                        acc.violate(key("seq-sample"), "restored sampler produces bit-identical samples", "a sample from the sampler restored through the positional-struct format differs".into(), case());
                    }
                }
            }
            Err(e) => {
                acc.violate(key("seq-deserialise"), "deserialises (format that writes structs positionally)", format!("round trip through the positional-struct format failed: {e}"), case());
            }
        }
        let txt = s.to_json_string();
        match Sampler::from_json_str(g.dim, &txt) {
            Ok(s2) => {
                acc.inc("json_roundtrips");
                if s2.to_json_string() != txt {
                    acc.violate(key("json-reserialise"), "ser(de(ser(S))) = ser(S) (JSON)", "JSON re-serialisation differs".into(), case());
                }
                if s2.to_json_value() != v0 {
                    acc.violate(key("json-table"), "same table", "table differs after JSON round trip".into(), case());
                }
                if s2.get_dimension() != s.get_dimension() || s2.get_dod().to_bits() != s.get_dod().to_bits() {
                    acc.violate(key("json-accessors"), "same dimension, dod", "accessors differ after JSON round trip".into(), case());
                }
                if sample0.is_some() {
                    acc.inc("restored_samples_compared");
                    if c18_sample_bits(g, &s2) != sample0 {
                        acc.violate(key("json-sample"), "restored sampler produces bit-identical samples", "a sample from the sampler restored through JSON differs".into(), case());
                    }
                }
            }
            Err(e) => {
                acc.violate(key("json-deserialise"), "deserialises", format!("JSON deserialisation failed: {e}"), case());
            }
        }
    } else {
        acc.inc("json_skipped_non_finite_table_value");
    }
    Some(s)
}

pub fn run_c18(ctx: &Ctx) -> i32 {
    let tier = ctx.tier;
    // (1) every accepted configuration of G-small: round trip of the table
    let labels = [0u8, 1, 2];
    let ext = external_alphabet(&labels, 7);
    let mut shapes: Vec<Vec<(u8, u8)>> = vec![];
    for ne in 1..=3 {
        shapes.extend(ordered_pair_shapes(&labels, ne));
    }
    let mut acc = par_for(shapes.len(), |i, acc| {
        let shape = &shapes[i];
        let ne = shape.len();
        // numerically generic values matter here (a lossy text rendering shows only on numbers that need all 17 digits)
        let alpha: Vec<f64> = if ne <= 2 { W6.to_vec() } else { tier.pick(vec![1.0, 2.0 / 3.0, 0.51], vec![0.5, 1.0, 2.0 / 3.0, 0.66, 0.51]) };
        let mut was = weight_assignments(&alpha, ne);
        was.push((0..ne).map(|e| 0.51 + 0.01 * e as f64).collect());
        was.push((0..ne).map(|e| [1.2, 0.52, 0.51][e % 3]).collect());
        was.push(vec![6.0; ne]);
        // very large normalisations (beyond 2^63) and very small ones
        was.push(vec![16.0; ne]);
        was.push(vec![21.0; ne]);
        for massive in mass_patterns(ne) {
            for e in &ext {
                for d in tier.pick(vec![3usize, 4], vec![1, 2, 3, 4, 5, 6]) {
                    was.push(vec![d as f64; ne]);
                    for w in &was {
                        let g = mk(shape, &massive, w, e, d);
                        acc.inc("configurations");
                        c18_graph(&g, acc);
                    }
                    was.pop();
                }
            }
        }
    });
    // (2) bit-identical samples from the restored sampler on the explored 1-deviation point set
    let cases = {
        let mut c = fam_for(tier, "C18");
        c.extend(dl_grid_cases().into_iter().filter(|c| c.g.loop_number(c.g.full()) <= 3));
        // size ladder: more than 8 edges (more than 256 table rows, all different), more than 6 loops, more than 64 signature entries
        c.extend(large_cases(tier));
        c
    };
    let roles = Roles { u: true, xi: true, p: true, ab: true, xi_moderate: true, xi_ladder: false };
    let acc2 = par_for(cases.len(), |i, acc| {
        let case = match Case::new(&cases[i]) {
            Some(c) => c,
            None => return,
        };
        let r = match route(&case, &case.base_kin()) {
            Ok(r) => r,
            Err(_) => return,
        };
        let d = case.g.dim;
        // a ragged signature (one row longer than the loop count; the surplus entry is never read) must survive as well
        let mut ragged: Vec<Vec<isize>> = r.kin.sig.iter().map(|row| row.iter().map(|&x| x as isize).collect()).collect();
        if let Some(last) = ragged.last_mut() {
            last.push(7);
        }
        if let BuildOutcome::Ok(rs) = build(&r.graph, &ragged) {
            let order: Vec<usize> = (0..case.g.ne()).collect();
            let x = sector_defaults(&case, &order);
            let want = outcome_bits(&rs.sample(&x, &r.ed, &Settings::META));
            for (name, s2) in [("json", Sampler::from_json_str(d, &rs.to_json_string())), ("cbor", Sampler::from_cbor(d, &rs.to_cbor()))] {
                acc.inc("ragged_signature_roundtrips");
                let same = match &s2 {
                    Ok(s2) => outcome_bits(&s2.sample(&x, &r.ed, &Settings::META)) == want,
                    Err(_) => false,
                };
                if !same {
                    acc.violate(
                        format!("C18/ragged-signature/{name}/{:016x}", fnv(&graph_json(&case.g).to_string())),
                        "restored sampler produces bit-identical samples",
                        format!("sampler with a ragged loop signature (one row longer than the loop count) restored through {name} fails to load or samples differently"),
                        point_case(&case, &r.kin, &x, &Settings::META, json!({"prop": "C18", "format": name, "ragged": true})),
                    );
                    return;
                }
            }
        }
        // signature entries are arbitrary integers (a loop momentum routed in rescaled units): values beyond i8 / i16 / i32
        for (tag, mul) in [("x200", 200isize), ("x-129", -129), ("x70000", 70000), ("x-2^33", -(1isize << 33))] {
            let scaled: Vec<Vec<isize>> = r.kin.sig.iter().map(|row| row.iter().map(|&x| x as isize * mul).collect()).collect();
            if let BuildOutcome::Ok(rs) = build(&r.graph, &scaled) {
                let order: Vec<usize> = (0..case.g.ne()).collect();
                let x = sector_defaults(&case, &order);
                let want = outcome_bits(&rs.sample(&x, &r.ed, &Settings::META));
                for (name, s2) in [("json", Sampler::from_json_str(d, &rs.to_json_string())), ("cbor", Sampler::from_cbor(d, &rs.to_cbor())), ("positional", rs.to_seq_value().and_then(|v| Sampler::from_seq_value(d, v)))] {
                    acc.inc("scaled_signature_roundtrips");
                    let same = match &s2 {
                        Ok(s2) => outcome_bits(&s2.sample(&x, &r.ed, &Settings::META)) == want,
                        Err(_) => false,
                    };
                    if !same {
                        acc.violate(
                            format!("C18/scaled-signature/{tag}/{name}/{:016x}", fnv(&graph_json(&case.g).to_string())),
                            "restored sampler produces bit-identical samples",
                            format!("sampler whose loop signature is the base routing times {mul} restored through {name} fails to load or samples differently"),
                            point_case(&case, &r.kin, &x, &Settings::META, json!({"prop": "C18", "format": name, "signature_times": mul})),
                        );
                        return;
                    }
                }
            }
        }
        let restored: Vec<(&str, Sampler)> = vec![
            ("json", match Sampler::from_json_str(d, &r.sampler.to_json_string()) { Ok(s) => s, Err(_) => return }),
            ("cbor", match Sampler::from_cbor(d, &r.sampler.to_cbor()) { Ok(s) => s, Err(_) => return }),
            ("json∘cbor", match Sampler::from_cbor(d, &r.sampler.to_cbor()).and_then(|s| Sampler::from_json_str(d, &s.to_json_string())) { Ok(s) => s, Err(_) => return }),
            ("positional", match r.sampler.to_seq_value().and_then(|v| Sampler::from_seq_value(d, v)) {
                Ok(s) => s,
                Err(e) => {
                    acc.violate(format!("C18/seq-deserialise/{:016x}", fnv(&graph_json(&case.g).to_string())), "deserialises (format that writes structs positionally)", format!("positional-struct round trip failed: {e}"), json!({"engine": "c18", "graph": graph_json(&case.g)}));
                    return;
                }
            }),
        ];
        acc.inc("sampling_cases");
        let ne = case.g.ne();
        let sectors = sectors_for(ne, false);
        let stride = (sectors.len() + 5) / 6;
        for (si, order) in sectors.iter().enumerate() {
            if si % stride != 0 {
                continue;
            }
            for (x, _) in sector_points(&case, order, 1, &roles) {
                let want = outcome_bits(&r.sampler.sample(&x, &r.ed, &Settings::META));
                for (name, s2) in &restored {
                    acc.inc("restored_samples_compared");
                    let got = outcome_bits(&s2.sample(&x, &r.ed, &Settings::META));
                    if got != want {
                        acc.violate(
                            format!("C18/samples-differ/{name}/{:016x}", fnv(&graph_json(&case.g).to_string())),
                            "restored sampler produces bit-identical samples",
                            format!("sampler restored through {name} gives a different sample at {x:?}"),
                            point_case(&case, &r.kin, &x, &Settings::META, json!({"prop": "C18", "format": name})),
                        );
                        return;
                    }
                }
            }
        }
        if acc.samples.len() < 2 && i % 41 == 1 {
            acc.sample(json!({"graph": graph_json(&case.g), "formats": ["json", "cbor", "json∘cbor"]}));
        }
    });
    acc.merge(acc2);
    acc.violations.sort_by(|a, b| (a.key.as_str(), a.what.as_str()).cmp(&(b.key.as_str(), b.what.as_str())));
    if acc.samples.is_empty() {
        acc.sample(json!({"note": "no sample"}));
    }
    let fin = Finish {
        level: "model_checking",
        rule: "every accepted configuration of G-small (E<=3) is serialised and restored through JSON (float_roundtrip parser; only when every table value is finite) and CBOR: re-serialisation byte-identical, table and accessors identical, and one differential sample (identity-like signature, so disconnected graphs are included) bit-identical; for every admissible configuration of the sampling family the restored samplers (JSON, CBOR, CBOR then JSON) are sampled on the whole 1-deviation answer set of 6 sectors with metadata on and compared bit-for-bit; states = samplers round-tripped, transitions = restored samples compared".into(),
        states: acc.get("samplers"),
        transitions: acc.get("restored_samples_compared"),
        traces: acc.get("restored_samples_compared"),
        evaluations: acc.get("samplers") + acc.get("restored_samples_compared"),
        distinct_nontrivial: acc.get("samplers"),
        exhaustive: true,
        bounds: json!({"formats": ["serde_json (float_roundtrip)", "ciborium", "value tree with positional structs (harness)"], "G-small": "E<=3", "D": tier.pick("3,4", "1..6"), "sampling": "family + (D,L) grid + size ladder (to 10 / 13 edges, 8 loops); loop signatures x 200, -129, 70000, -2^33; ragged signature"}),
        assumptions: vec!["JSON cannot carry NaN/inf: samplers whose normalisation is non-finite (dod = 0) are round-tripped through CBOR only".into()],
        extra: Default::default(),
    };
    finish(ctx, &acc, fin)
}

pub fn replay_c18(case: &Value) -> i32 {
    let g = graph_from_json(&case["graph"]);
    let mut acc = Acc::new();
    c18_graph(&g, &mut acc);
    for v in &acc.violations {
        eprintln!("  reproduced: [{}] {}", v.clause, v.what);
    }
    if acc.violations.is_empty() {
        eprintln!("  no violation reproduced");
        0
    } else {
        1
    }
}
