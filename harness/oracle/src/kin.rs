//! Kinematics generator: external momenta, momentum-conserving edge shifts, cycle-basis signatures
//! and the orbit of routings (basis changes, orientation flips, loop-momentum offsets).
//!
//! Convention (ours, the implementation only sees signature + shift): edge e = (left -> right) carries
//! q_e = Σ_l S_el k_l + p_e from left to right; at every vertex v: Σ_{left(e)=v} q_e - Σ_{right(e)=v} q_e = p_v (incoming).
use crate::graph::OGraph;
use crate::num::*;
use num_traits::Zero;

#[derive(Clone, Debug)]
pub struct Kin {
    /// E x L signature
    pub sig: Vec<Vec<i64>>,
    /// E x D shifts
    pub shifts: Vec<Vec<Q>>,
    /// masses (None for massless edges)
    pub masses: Vec<Option<Q>>,
    /// incoming external momenta (vertex, D-vector); sums to zero
    pub ext: Vec<(u8, Vec<Q>)>,
    /// orientation used for each edge (left,right) – flips swap it
    pub orient: Vec<(u8, u8)>,
}

pub fn vec_add(a: &[Q], b: &[Q]) -> Vec<Q> {
    a.iter().zip(b).map(|(x, y)| x + y).collect()
}
pub fn vec_sub(a: &[Q], b: &[Q]) -> Vec<Q> {
    a.iter().zip(b).map(|(x, y)| x - y).collect()
}
pub fn vec_scale(a: &[Q], s: &Q) -> Vec<Q> {
    a.iter().map(|x| x * s).collect()
}
pub fn vec_sq(a: &[Q]) -> Q {
    a.iter().fold(Q::zero(), |s, x| s + x * x)
}
pub fn vec_dot(a: &[Q], b: &[Q]) -> Q {
    a.iter().zip(b).fold(Q::zero(), |s, (x, y)| s + x * y)
}

/// Generic external momenta set number `variant` for the distinct external vertices `ext` in `dim` dimensions.
/// Σ p = 0; caller checks partial sums with `partial_sums_nonzero`.
pub fn external_momenta(ext: &[u8], dim: usize, variant: usize) -> Vec<(u8, Vec<Q>)> {
    let n = ext.len();
    let mut res: Vec<(u8, Vec<Q>)> = vec![];
    if n == 0 {
        return res;
    }
    let mut total = vec![Q::zero(); dim];
    for (i, &v) in ext.iter().enumerate() {
        if i + 1 == n {
            res.push((v, total.iter().map(|t| -t.clone()).collect()));
        } else {
            let p: Vec<Q> = (0..dim)
                .map(|d| {
                    // small, distinct, sign-mixed rationals; exactly representable in f64 (dyadic) so that
                    // the f64 shifts handed to the implementation are the exact values
                    let num = match variant {
                        0 => (3 + 2 * i as i64 + 5 * d as i64) * if (i + d) % 2 == 0 { 1 } else { -1 },
                        _ => (7 + 3 * i as i64 - 2 * d as i64) * if (i * 3 + d) % 3 == 0 { -1 } else { 1 },
                    };
                    let den = if variant == 0 { 4 } else { 8 };
                    qr(num, den)
                })
                .collect();
            total = vec_add(&total, &p);
            res.push((v, p));
        }
    }
    res
}

/// every non-empty proper subset of the external momenta has a non-zero sum
pub fn partial_sums_nonzero(ext: &[(u8, Vec<Q>)]) -> bool {
    let n = ext.len();
    if n == 0 {
        return true;
    }
    if n == 1 {
        return false; // a single external forces p = 0
    }
    for m in 1..(1usize << n) - 1 {
        let dim = ext[0].1.len();
        let mut s = vec![Q::zero(); dim];
        for i in 0..n {
            if m >> i & 1 == 1 {
                s = vec_add(&s, &ext[i].1);
            }
        }
        if s.iter().all(|x| x.is_zero()) {
            return false;
        }
    }
    true
}

/// Spanning tree by Kruskal with the given edge priority (first = preferred). Returns tree mask.
pub fn kruskal_tree(g: &OGraph, order: &[usize]) -> usize {
    let mut parent: Vec<usize> = (0..256).collect();
    fn find(p: &mut Vec<usize>, x: usize) -> usize {
        let mut r = x;
        while p[r] != r {
            r = p[r];
        }
        let mut c = x;
        while p[c] != r {
            let n = p[c];
            p[c] = r;
            c = n;
        }
        r
    }
    let mut t = 0usize;
    for &e in order {
        let (a, b) = g.edges[e];
        let (ra, rb) = (find(&mut parent, a as usize), find(&mut parent, b as usize));
        if ra != rb {
            parent[ra] = rb;
            t |= 1 << e;
        }
    }
    t
}

/// Build kinematics for a connected graph: fundamental cycles of the spanning tree `tree`,
/// externals routed through the tree. `masses[e]` must be Some iff the edge is massive.
pub fn build_kin(g: &OGraph, tree: usize, ext: &[(u8, Vec<Q>)], masses: &[Option<Q>]) -> Kin {
    let ne = g.ne();
    let dim = g.dim;
    let chords: Vec<usize> = (0..ne).filter(|e| tree >> e & 1 == 0).collect();
    let nl = chords.len();
    let mut sig = vec![vec![0i64; nl]; ne];
    // tree adjacency
    let tree_edges: Vec<usize> = (0..ne).filter(|e| tree >> e & 1 == 1).collect();
    // path in tree from a to b: list of (edge, direction +1 if traversed left->right)
    let path = |from: u8, to: u8| -> Vec<(usize, i64)> {
        // DFS
        fn dfs(
            cur: u8,
            to: u8,
            used: &mut Vec<bool>,
            tree_edges: &[usize],
            edges: &[(u8, u8)],
            acc: &mut Vec<(usize, i64)>,
        ) -> bool {
            if cur == to {
                return true;
            }
            for (i, &e) in tree_edges.iter().enumerate() {
                if used[i] {
                    continue;
                }
                let (l, r) = edges[e];
                let next = if l == cur {
                    Some((r, 1))
                } else if r == cur {
                    Some((l, -1))
                } else {
                    None
                };
                if let Some((n, d)) = next {
                    used[i] = true;
                    acc.push((e, d));
                    if dfs(n, to, used, tree_edges, edges, acc) {
                        return true;
                    }
                    acc.pop();
                    used[i] = false;
                }
            }
            false
        }
        let mut used = vec![false; tree_edges.len()];
        let mut acc = vec![];
        let ok = dfs(from, to, &mut used, &tree_edges, &g.edges, &mut acc);
        assert!(ok, "tree path not found");
        acc
    };
    for (l, &c) in chords.iter().enumerate() {
        sig[c][l] = 1;
        let (a, b) = g.edges[c];
        if a != b {
            // loop momentum flows a -> b along the chord, returns b -> a through the tree
            for (e, d) in path(b, a) {
                sig[e][l] = d;
            }
        }
    }
    // shifts: tree edge e carries the external momentum entering the component of left(e) in T \ e
    let mut shifts = vec![vec![Q::zero(); dim]; ne];
    for &e in &tree_edges {
        let (l, _r) = g.edges[e];
        // component of l in tree minus e
        let sub = OGraph {
            edges: g.edges.clone(),
            massive: g.massive.clone(),
            weights: g.weights.clone(),
            externals: vec![],
            dim,
        };
        let mask = tree & !(1 << e);
        let comps = sub.components(mask);
        let side: Vec<u8> = comps
            .into_iter()
            .find(|c| c.contains(&l))
            .unwrap_or_else(|| vec![l]);
        let mut s = vec![Q::zero(); dim];
        for (v, p) in ext {
            if side.contains(v) {
                s = vec_add(&s, p);
            }
        }
        shifts[e] = s;
    }
    Kin {
        sig,
        shifts,
        masses: masses.to_vec(),
        ext: ext.to_vec(),
        orient: g.edges.clone(),
    }
}

impl Kin {
    pub fn nl(&self) -> usize {
        self.sig.first().map(|r| r.len()).unwrap_or(0)
    }
    /// check momentum conservation at every vertex for arbitrary loop momenta: columns of S are flows, shifts carry the externals
    pub fn conserves(&self) -> bool {
        let ne = self.sig.len();
        let nl = self.nl();
        let dim = self.shifts.first().map(|s| s.len()).unwrap_or(0);
        let mut verts: Vec<u8> = vec![];
        for &(a, b) in &self.orient {
            for v in [a, b] {
                if !verts.contains(&v) {
                    verts.push(v);
                }
            }
        }
        for &v in &verts {
            for l in 0..nl {
                let mut s = 0i64;
                for e in 0..ne {
                    let (a, b) = self.orient[e];
                    if a == v {
                        s += self.sig[e][l];
                    }
                    if b == v {
                        s -= self.sig[e][l];
                    }
                }
                if s != 0 {
                    return false;
                }
            }
            let mut s = vec![Q::zero(); dim];
            for e in 0..ne {
                let (a, b) = self.orient[e];
                if a == v {
                    s = vec_add(&s, &self.shifts[e]);
                }
                if b == v {
                    s = vec_sub(&s, &self.shifts[e]);
                }
            }
            let mut want = vec![Q::zero(); dim];
            for (x, p) in &self.ext {
                if *x == v {
                    want = vec_add(&want, p);
                }
            }
            if s != want {
                return false;
            }
        }
        true
    }

    /// k = M k'  =>  S' = S M
    pub fn change_basis(&self, m: &[Vec<i64>]) -> Kin {
        let nl = self.nl();
        let mut k = self.clone();
        for e in 0..self.sig.len() {
            for j in 0..nl {
                k.sig[e][j] = (0..nl).map(|i| self.sig[e][i] * m[i][j]).sum();
            }
        }
        k
    }
    /// reverse the orientation of edge e
    pub fn flip(&self, e: usize) -> Kin {
        let mut k = self.clone();
        for x in k.sig[e].iter_mut() {
            *x = -*x;
        }
        for x in k.shifts[e].iter_mut() {
            *x = -x.clone();
        }
        k.orient[e] = (self.orient[e].1, self.orient[e].0);
        k
    }
    /// k = k' - a  =>  p'_e = p_e - Σ_l S_el a_l
    pub fn offset(&self, a: &[Vec<Q>]) -> Kin {
        let mut k = self.clone();
        for e in 0..self.sig.len() {
            for (l, al) in a.iter().enumerate() {
                let s = qi(self.sig[e][l]);
                k.shifts[e] = vec_sub(&k.shifts[e], &vec_scale(al, &s));
            }
        }
        k
    }
}

/// all elementary unimodular matrices of size n: swaps, negations, add / subtract column i to column j
pub fn elementary_unimodular(n: usize) -> Vec<Vec<Vec<i64>>> {
    let id: Vec<Vec<i64>> = (0..n).map(|i| (0..n).map(|j| (i == j) as i64).collect()).collect();
    let mut res = vec![];
    for i in 0..n {
        let mut m = id.clone();
        m[i][i] = -1;
        res.push(m);
        for j in 0..n {
            if i == j {
                continue;
            }
            if i < j {
                let mut m = id.clone();
                m[i][i] = 0;
                m[j][j] = 0;
                m[i][j] = 1;
                m[j][i] = 1;
                res.push(m);
            }
            for s in [1i64, -1] {
                let mut m = id.clone();
                m[i][j] = s;
                res.push(m);
            }
        }
    }
    res
}

pub fn mat_mul_i(a: &[Vec<i64>], b: &[Vec<i64>]) -> Vec<Vec<i64>> {
    let n = a.len();
    (0..n)
        .map(|i| (0..n).map(|j| (0..n).map(|k| a[i][k] * b[k][j]).sum()).collect())
        .collect()
}

#[cfg(test)]
mod tests {
    use super::*;

    #[test]
    fn kite_conserves() {
        let g = OGraph {
            edges: vec![(0, 1), (1, 2), (2, 0), (1, 3), (3, 2)],
            massive: vec![false, true, false, false, false],
            weights: vec![1.0; 5],
            externals: vec![0, 3],
            dim: 3,
        };
        let ext = external_momenta(&[0, 3], 3, 0);
        assert!(partial_sums_nonzero(&ext));
        let masses = vec![None, Some(qr(1, 2)), None, None, None];
        for order in [vec![0, 1, 2, 3, 4], vec![4, 3, 2, 1, 0], vec![2, 4, 0, 1, 3]] {
            let t = kruskal_tree(&g, &order);
            assert_eq!(t.count_ones(), 3);
            let k = build_kin(&g, t, &ext, &masses);
            assert_eq!(k.nl(), 2);
            assert!(k.conserves());
            for m in elementary_unimodular(2) {
                assert!(k.change_basis(&m).conserves());
            }
            for e in 0..5 {
                assert!(k.flip(e).conserves());
            }
            let off = vec![vec![qi(1), qi(0), qr(1, 2)], vec![qr(1, 2), qi(-3), qi(2)]];
            assert!(k.offset(&off).conserves());
        }
    }
}
