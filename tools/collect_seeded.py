#!/usr/bin/env python3
"""Collects confirmed seeded changes into /verif/seeded/<prop>-<variant>/ (patch.diff, demo.rs, meta.json, notes.md).
Inputs: /tmp/mut-<prop>/MUTATION/* (written by independent sub-agents, verified by tools/verify_seed.sh) and the
results of tools/seed_check.sh given on the command line as log files."""
import json, os, re, shutil, sys, glob

NEEDS = {
 "C01-A": "L matrix built with the sign of s_ei*s_ej dropped: needs >=2 loops, a routing where one edge carries two loop momenta with opposite signs, and a non-zero shift on it",
 "C01-B": "incremental weight sum indexes topology by list position instead of edge id: needs unequal edge weights and a subgraph that is not a prefix {0..k-1}, with the permuted dods still positive",
 "C02-A": "v_trop update dropped for the forced last edge: needs a graph where a single propagator is itself mass-momentum spanning (bubble, sunrise, 2-external triangle, lone massive edge) and the sector removing it last",
 "C02-B": "mass-spanning test done per connected component: needs mixed masses with a massive edge separable from the momentum-carrying component, and a sector through that disconnected subgraph",
 "C03-A": "massive-edge count moved into the per-component closure of is_mass_momentum_spanning: needs mixed masses and a disconnected subset with a massive edge outside the component touching all externals",
 "C03-B": "branch-free vertex count tests both endpoints before marking either: needs a self-loop that is the lowest-index edge at its vertex within its component (loop number one too small)",
 "C04-A": "subgraph table buffer in a thread-local scratch that is resized but never cleared: needs a second build_sampler on the same thread for a graph with different J values (stale memo entries)",
 "C04-B": "Gamma of integer weights computed as n! instead of (n-1)!: needs an edge with integer weight >= 2",
 "C05-A": "weight sums accumulated in hash-set iteration order: needs >=3 unequal non-dyadic weights in one connected subgraph and two builds (different hash seeds)",
 "C05-B": "contains-all-massive-edges checked per component: needs a disconnected subgraph with massive edges in different components, one holding all externals, and 0 < w - L D/2 <= omega(G)",
 "C06-A": "rounding fall-through keyed on the parent graph's last edge index: needs an earlier removal of the highest-numbered edge, a subgraph whose f64 cumulative sum ends below 1, and u = 1-2^-53",
 "C06-B": "cumulative scan done in f64 via to_f64(): needs a scalar type wider than f64 and a u that f64 cannot represent (bit-identical for f64 callers)",
 "C07-A": "u_trop update dropped for the forced last edge: needs a self-loop edge (tadpole) removed last in a graph with >=2 edges",
 "C07-B": "thread-local cache of 1/omega keyed on the table address and length: needs sampler X sampled, X replaced by a sampler Y with the same edge count at the same address, then Y sampled on the same thread",
 "C08-A": "L matrix accumulates x_e by the sign of s_ei*s_ej only: needs a valid cycle basis with a signature entry of magnitude >= 2 (unimodular shear such as c1' = c1 + c2)",
 "C08-B": "Cholesky pivot floored at 1e-10 of the diagonal: needs >=2 loops, one Feynman parameter exceeding the rest by >1e10 (corner of the hypercube) and a basis where two cycles share that edge",
 "C09-A": "off-diagonal terms of u^T L^-1 u visited only for adjacent loop pairs: needs >=3 loops with a non-zero (0,2) term",
 "C09-B": "masses compacted with filter_map at one site and zipped against x at another: needs a massless edge with a lower index than a massive one",
 "C10-A": "skip-the-shift shortcut tests u_l == 0 with the outer index: needs >=2 loops, non-diagonal L^-1, one loop with u_l exactly zero and another non-zero",
 "C10-B": "nilpotent series rewritten as (I-N)(I+N^2)(I+N^4).. with an off-by-one loop bound: needs exactly 5 loops (non-factorising graph)",
 "C11-A": "v_trop / u_trop updates turned into if/else-if: needs >=2 loops, mixed masses and a sector where one removal both opens a loop and loses the spanning flag",
 "C11-B": "Gamma(w_e) skipped for integer weights: needs an integer propagator power >= 3",
 "C12-A": "x_n <= 0 clamp moved after the update in the Schroeder iteration: needs a starting value exactly 0 (p = 0 with a < 1, or tiny p underflowing for small a) - statrs then panics",
 "C12-B": "early-return threshold a >= 500 lowered to a >= 50: needs shape in [50,100] and p in a 5.6e-6 wide window around P(a,a)",
 "C13-A": "cos/sin chosen by the index inside the loop vector: needs odd D and L >= 2 (vectors with odd index)",
 "C13-B": "ln(0) guard clamps the radial coordinate at f64::EPSILON: needs a coordinate a < 2.2e-16 in the first slot of a pair",
 "C14-A": "Box-Muller spare carried over between loop vectors and never cleared: needs >=3 loops and odd D",
 "C14-B": "Gaussian uniforms taken from the END of the slice: needs a point longer than get_dimension()",
 "C15-A": "alternating nilpotent series folded in reverse with the sign from the enumeration index: needs odd dimension >= 3",
 "C15-B": "sparse shortcut skips Cholesky entries where the input is exactly zero (ignores fill-in): needs an exact zero at (i,j) with rows i and j both coupled to an earlier row",
 "C16-A": "ZeroDet decided by a single zero pivot inside the Cholesky loop: needs a well-conditioned SPD matrix of tiny scale whose pivot product or its square underflows",
 "C16-B": "l21_norm skips columns whose squared norm is not > 0: NaN columns are dropped, error becomes 0: needs the stability test on and an indefinite matrix / an extreme corner of a multi-loop graph",
 "C17-A": "debug-token trail and read cursor in a module-level static Mutex: needs two threads inside sample() at the same time interleaving between two draws",
 "C17-B": "weights summed per component in hash-set iteration order: needs >=3 unequal non-dyadic weights and a different hash seed (another process / another build)",
 "C18-A": "num_loops re-derived on load with the single-component Euler formula: needs a graph with more than one connected component and a sample after restoring",
 "C18-B": "f64 written as a 17-decimal-places string in human-readable formats: needs a human-readable format and a table number below 1/16",
 "C19-A": "masses squared once through f64: needs a massive edge and a non-f64 scalar type",
 "C19-B": "powers of the nilpotent matrix formed with an f64 accumulator: needs matrix dimension >= 3 (>=3 loops) and a non-f64 scalar type",
 "C20-A": "dot regrouped into blocks of four, squared delegates to it: needs D >= 4 and components whose products round differently under the two orders",
 "C20-B": "from_isize goes through i32: needs an argument outside the i32 range",
}

def parse_results(paths):
    res = {}
    for p in paths:
        cur = None
        for line in open(p):
            m = re.match(r"== (C\d+) ([AB])", line)
            if m:
                cur = f"{m.group(1)}-{m.group(2)}"
                res.setdefault(cur, [])
                continue
            line = line.strip()
            if cur and line.startswith("{"):
                try:
                    res[cur].append(json.loads(line))
                except Exception:
                    pass
    return res

def main():
    # usage: collect_seeded.py [--prefix /tmp/m2- --round 2] <result logs...>
    args = sys.argv[1:]
    prefix, rnd = "/tmp/mut-", ""
    while args and args[0].startswith("--"):
        if args[0] == "--prefix":
            prefix = args[1]
        if args[0] == "--round":
            rnd = args[1]
        args = args[2:]
    results = parse_results(args)
    out_root = "/verif/seeded"
    os.makedirs(out_root, exist_ok=True)
    summary = []
    for d in sorted(glob.glob(prefix + "C*/MUTATION")):
        prop = d.split("/")[2].split("-")[-1]
        for v in "AB":
            patch = f"{d}/patch{v}.diff"; demo = f"{d}/demo_{prop}_{v}.rs"; ver = f"{d}/verify_{v}.json"
            if not (os.path.exists(patch) and os.path.exists(demo) and os.path.exists(ver)):
                continue
            verify = json.load(open(ver))
            ok = all(verify[k] for k in ("applies", "builds_features", "suite_passes_with_change", "demo_fails_with_change", "demo_passes_without_change"))
            sid = f"{prop}-{rnd}{v}"
            if not ok:
                summary.append((sid, "NOT KEPT (claims not confirmed)", verify)); continue
            dst = f"{out_root}/{sid}"
            os.makedirs(dst, exist_ok=True)
            shutil.copy(patch, f"{dst}/patch.diff")
            shutil.copy(demo, f"{dst}/demo.rs")
            if os.path.exists(f"{d}/notes.md"):
                shutil.copy(f"{d}/notes.md", f"{dst}/notes.md")
            checks = results.get(f"{prop}-{v}", [])
            needs_file = f"{d}/needs_{v}.txt"
            if os.path.exists(needs_file):
                NEEDS[sid] = open(needs_file).read().strip()
            elif os.path.exists(f"{d}/notes.md"):
                lines = [l.split("NEEDS:", 1)[1].strip(" *`") for l in open(f"{d}/notes.md") if "NEEDS:" in l]
                k = "AB".index(v)
                if len(lines) > k:
                    NEEDS[sid] = lines[k]
            meta = {
                "id": sid,
                "breaks_property": prop,
                "needs_to_manifest": NEEDS.get(sid, "see notes.md"),
                "origin": "independent sub-agent given only the property record and a scratch worktree of /repo (nothing from /verif)",
                "confirmed_in_scratch_worktree": {
                    "command": f"tools/verify_seed.sh {prop} {v} {prefix}",
                    "patch_applies_to_HEAD": verify["applies"],
                    "builds_with_features_log_and_verif-hooks": verify["builds_features"],
                    "baseline_suite_with_change": verify["suite_summary"],
                    "demo_fails_with_change": verify["demo_fails_with_change"],
                    "demo_passes_without_change": verify["demo_passes_without_change"],
                    "demo_placement": f"copy demo.rs to tests/demo_{prop}.rs of the crate; cargo test --offline --test demo_{prop}",
                },
                "checks_run_against_it": [
                    {"command": f"git -C /repo apply seeded/{sid}/patch.diff && ./check {c['check']} {c['tier']}; git -C /repo checkout -- .",
                     "exit": c["exit"], "violation_lines": c["violation_lines"], "categories": c["categories"], "summary": c["last"]}
                    for c in checks],
                "caught_by": sorted({f"{c['check']}:{c['tier']}" for c in checks if c["exit"] == 1 and c["violation_lines"] > 0}),
            }
            json.dump(meta, open(f"{dst}/meta.json", "w"), indent=1)
            summary.append((sid, "caught by " + ", ".join(meta["caught_by"]) if meta["caught_by"] else "MISSED so far", None))
    for s in summary:
        print(s[0], "|", s[1])

if __name__ == "__main__":
    main()
